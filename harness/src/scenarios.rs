//! Targeted forgeries against the real prover / verifier, one per deviation class that the
//! `ConstraintSystem` view of the specifications singles out (values the verifier does not fix):
//! hint outputs, non-exposed permutation outputs, coefficient inputs of the plain recompose
//! table.  Each scenario builds a circuit through the public API, produces a deviating but
//! self-consistent execution by wrapping an executor of the compiled circuit, proves it with the
//! prover data of the ORIGINAL circuit and reports the real verifier's verdict.
use std::panic::{AssertUnwindSafe, catch_unwind};

use p3_batch_stark::ProverData;
use p3_challenger::{CanObserve, CanSample, DuplexChallenger, FieldChallenger};
use p3_circuit::ops::{
    ExecutionContext, HintExecutor, NonPrimitiveExecutor, NpoTypeId, Poseidon2Config, Poseidon2PermCall, PreprocessedWriter,
    generate_poseidon2_trace, generate_recompose_trace,
};
use p3_circuit::{Circuit, CircuitBuilder, CircuitError, ExprId, Op, Traces, WitnessId};
use p3_circuit_prover::batch_stark_prover::{poseidon2_air_builders, recompose_air_builders};
use p3_circuit_prover::common::{NpoPreprocessor, get_airs_and_degrees_with_prep};
use p3_circuit_prover::config::{self, KoalaBearConfig};
use p3_circuit_prover::{BatchStarkProver, CircuitProverData, ConstraintProfile, Poseidon2Preprocessor, RecomposePreprocessor, TablePacking};
use p3_field::extension::BinomialExtensionField;
use p3_field::{BasedVectorSpace, PrimeCharacteristicRing};
use p3_koala_bear::{KoalaBear, Poseidon2KoalaBear, default_koalabear_poseidon2_16};
use p3_poseidon2_circuit_air::KoalaBearD4Width16;
use p3_recursion::challenger::CircuitChallenger;
use p3_recursion::traits::RecursiveChallenger;
use serde_json::{Value, json};

use crate::forge::{FixedHint, Verdict, prove_verify_with, run_traces};
use crate::pipeline::{F, prepare};

type KB = KoalaBear;
type E4 = BinomialExtensionField<KB, 4>;

pub struct Scenario {
    pub id: &'static str,
    pub properties: &'static [&'static str],
    pub what: &'static str,
    /// verdict of the real verifier on the honest execution (must be accepted, else the scenario is void)
    pub honest: String,
    /// verdict on the forged execution; `None` if the forgery could not be constructed
    pub forged: Option<String>,
    pub accepted: bool,
    pub detail: Value,
}

fn vstr(v: &Verdict) -> String {
    match v {
        Verdict::Accepted => "accepted".into(),
        Verdict::ProveFailed(e) => format!("prove failed: {}", e.chars().take(120).collect::<String>()),
        Verdict::Rejected(e) => format!("rejected: {}", e.chars().take(120).collect::<String>()),
    }
}

fn f(x: u64) -> F {
    F::from_u64(x)
}

/// S1: decompose_to_bits with a non-boolean "bit".
fn s_nonboolean_bits() -> Scenario {
    use p3_baby_bear::BabyBear;
    let mut b = CircuitBuilder::<F>::new();
    let x = b.public_input();
    let bits = b.decompose_to_bits::<BabyBear>(x, 3).unwrap();
    let five = b.define_const(f(5));
    let y = b.mul(bits[1], five);
    let yp = b.public_input();
    b.connect(y, yp);
    let c = b.build().unwrap();
    let packing = TablePacking::new(1, 1);
    let prep = prepare(&c, &packing).unwrap();
    let honest = run_traces(&c, &[f(4), f(0)], &[]).unwrap();
    let hv = prove_verify_with(&prep, &honest, packing.clone());
    let mut forged = c.clone();
    for op in forged.ops.iter_mut() {
        if let Op::Hint { executor, .. } = op {
            *executor = Box::new(FixedHint { values: vec![f(0), f(2), f(0)] });
        }
    }
    let mut fv = None;
    if let Ok(mut t) = run_traces(&forged, &[f(4), f(10)], &[]) {
        for (i, k) in t.alu_trace.op_kind.clone().iter().enumerate() {
            if *k == p3_circuit::AluOpKind::BoolCheck && t.alu_trace.values[i][0] == f(2) {
                t.alu_trace.values[i][0] = F::ZERO;
                t.alu_trace.values[i][2] = F::ZERO;
            }
        }
        fv = Some(prove_verify_with(&prep, &t, packing));
    }
    Scenario {
        id: "non-boolean-bits",
        properties: &["C04", "C12"],
        what: "decompose_to_bits(4, 3) with hint bits (0,2,0) (0 + 2*2 + 4*0 = 4); the a/c cells of the BoolCheck row of bit 1 are set to 0, its out cell carries 2; y = 5*bit1 = 10 is exposed",
        honest: vstr(&hv),
        accepted: fv == Some(Verdict::Accepted),
        forged: fv.as_ref().map(vstr),
        detail: json!({"x": 4, "forged_bits": [0, 2, 0]}),
    }
}

/// S1': a non-boolean value at ONE chosen bit position j of decompose_to_bits(x, n): x = 2^(j+1) with hint bits all zero
/// except bit j = 2 (2 * 2^j = x).  The forged circuit only swaps the hint executor; the REAL runner must refuse the
/// execution (BoolCheck of bit j) or, if it produces traces, the real verifier must refuse the proof.  Every position is a
/// scenario of its own: a boolean check missing for a single bit is exactly what the enumeration is for.
fn s_nonboolean_bit_at(n: usize, j: usize) -> Scenario {
    use p3_baby_bear::BabyBear;
    let id: &'static str = Box::leak(format!("non-boolean-bit:n={n}:j={j}").into_boxed_str());
    let mut b = CircuitBuilder::<F>::new();
    let x = b.public_input();
    let bits = b.decompose_to_bits::<BabyBear>(x, n).unwrap();
    let five = b.define_const(f(5));
    let y = b.mul(bits[j], five);
    let yp = b.public_input();
    b.connect(y, yp);
    let c = b.build().unwrap();
    let packing = TablePacking::new(1, 1);
    let prep = prepare(&c, &packing).unwrap();
    // honest baseline: x = 2^j, bit j = 1, y = 5
    let honest = run_traces(&c, &[f(1u64 << j), f(5)], &[]).unwrap();
    let hv = prove_verify_with(&prep, &honest, packing.clone());
    let mut forged = c.clone();
    let mut hint = vec![F::ZERO; n];
    hint[j] = f(2);
    for op in forged.ops.iter_mut() {
        if let Op::Hint { executor, .. } = op {
            *executor = Box::new(FixedHint { values: hint.clone() });
        }
    }
    let xv = f(1u64 << (j + 1));
    let run = run_traces(&forged, &[xv, f(10)], &[]);
    let fv = run.as_ref().ok().map(|t| prove_verify_with(&prep, t, packing));
    Scenario {
        id,
        properties: &["C12"],
        what: "decompose_to_bits(2^(j+1), n) with the hint emitting 2 at bit j and 0 elsewhere (2 * 2^j = x); y = 5 * bit_j = 10 is exposed; nothing else is touched",
        honest: vstr(&hv),
        accepted: fv == Some(Verdict::Accepted),
        forged: fv.as_ref().map(vstr).or_else(|| run.as_ref().err().map(|e| format!("runner refuses: {}", e.chars().take(100).collect::<String>()))),
        detail: json!({"n": n, "bit": j, "x": 1u64 << (j + 1)}),
    }
}

/// S2: bits of a non-canonical representative x + k*p, for every width n and every k it fits in.
fn s_bits_of_x_plus_p(nbits: usize, x: u64) -> Scenario {
    use p3_baby_bear::BabyBear;
    const P: u64 = 0x7800_0001;
    #[derive(Debug, Clone)]
    struct EvilBits(u64);
    impl HintExecutor<F> for EvilBits {
        fn execute(&self, _inputs: &[WitnessId], outputs: &[WitnessId], witness: &mut [Option<F>]) -> Result<(), CircuitError> {
            for (i, o) in outputs.iter().enumerate() {
                witness[o.0 as usize] = Some(F::from_bool((self.0 >> i) & 1 == 1));
            }
            Ok(())
        }
        fn boxed(&self) -> Box<dyn HintExecutor<F>> {
            Box::new(self.clone())
        }
    }
    let id: &'static str = Box::leak(format!("bits-of-x-plus-p:n={nbits}").into_boxed_str());
    let mut b = CircuitBuilder::<F>::new();
    let xe = b.public_input();
    let claim = b.public_input();
    let bits = b.decompose_to_bits::<BabyBear>(xe, nbits).unwrap();
    b.connect(bits[0], claim);
    let c = b.build().unwrap();
    let packing = TablePacking::new(1, 1);
    let prep = prepare(&c, &packing).unwrap();
    let honest = run_traces(&c, &[f(x), f(x & 1)], &[]).unwrap();
    let hv = prove_verify_with(&prep, &honest, packing.clone());
    // the model (Decompose.tla): every vector with value v = x mod p, v < 2^n; v = x + p is the only other one
    let alt = x + P;
    if nbits < 64 && alt >= (1u64 << nbits) {
        return Scenario { id, properties: &["C12"], what: "no non-canonical boolean vector of this width recomposes to x (2^n <= x + p)",
            honest: vstr(&hv), forged: None, accepted: false, detail: json!({"x": x, "nbits": nbits, "alternatives": 0}) };
    }
    let mut forged = c.clone();
    for op in forged.ops.iter_mut() {
        if let Op::Hint { executor, .. } = op {
            *executor = Box::new(EvilBits(alt));
        }
    }
    let fv = run_traces(&forged, &[f(x), f(alt & 1)], &[]).ok().map(|t| prove_verify_with(&prep, &t, packing));
    Scenario {
        id,
        properties: &["C12"],
        what: "decompose_to_bits(x, n) over BabyBear with the hint emitting the bits of x + p (< 2^n): the proof claims a lowest bit that is not the one of the canonical representative",
        honest: vstr(&hv),
        accepted: fv == Some(Verdict::Accepted),
        forged: fv.as_ref().map(vstr),
        detail: json!({"x": x, "nbits": nbits, "forged_value": alt, "claimed_lowest_bit": alt & 1, "alternatives": 1}),
    }
}

// ---- KoalaBear D4 with Poseidon2 and the recompose table -----------------------------------
struct Kb4 {
    cpd: CircuitProverData<KoalaBearConfig>,
    prover: BatchStarkProver<KoalaBearConfig>,
}

fn kb4_setup(circuit: &Circuit<E4>) -> Result<Kb4, String> {
    let r = catch_unwind(AssertUnwindSafe(|| {
        let stark_config = config::koala_bear();
        let packing = TablePacking::new(1, 1);
        let npo_prep: Vec<Box<dyn NpoPreprocessor<KB>>> = vec![Box::new(Poseidon2Preprocessor), Box::new(RecomposePreprocessor::default())];
        let mut air_builders = poseidon2_air_builders::<_, 4>();
        air_builders.extend(recompose_air_builders(1, false));
        let (airs_degrees, pc, npc) =
            get_airs_and_degrees_with_prep::<KoalaBearConfig, _, 4>(circuit, &packing, &npo_prep, &air_builders, ConstraintProfile::Standard).map_err(|e| format!("{e:?}"))?;
        let (airs, degrees): (Vec<_>, Vec<usize>) = airs_degrees.into_iter().unzip();
        let pd = ProverData::from_airs_and_degrees(&stark_config, &airs, &degrees);
        let cpd = CircuitProverData::new(pd, pc, npc);
        let mut prover = BatchStarkProver::new(stark_config).with_table_packing(packing);
        prover.register_poseidon2_table::<4>(Poseidon2Config::KOALA_BEAR_D4_W16);
        prover.register_recompose_table::<4>(false);
        Ok(Kb4 { cpd, prover })
    }));
    r.unwrap_or_else(|_| Err("panic in prover set-up".into()))
}

fn kb4_prove_verify(k: &Kb4, t: &Traces<E4>) -> Verdict {
    let r = catch_unwind(AssertUnwindSafe(|| {
        let proof = match k.prover.prove_all_tables(t, &k.cpd) {
            Ok(p) => p,
            Err(e) => return Verdict::ProveFailed(format!("{e:?}")),
        };
        match k.prover.verify_all_tables::<E4>(&proof) {
            Ok(()) => Verdict::Accepted,
            Err(e) => Verdict::Rejected(format!("{e:?}")),
        }
    }));
    r.unwrap_or_else(|_| Verdict::ProveFailed("PANIC in prove/verify".into()))
}

fn kb4_builder() -> CircuitBuilder<E4> {
    let mut b = CircuitBuilder::<E4>::new();
    b.enable_poseidon2_perm::<KoalaBearD4Width16, _>(generate_poseidon2_trace::<E4, KoalaBearD4Width16>, default_koalabear_poseidon2_16());
    b.enable_recompose::<KB>(generate_recompose_trace::<KB, E4>);
    b
}

/// S3: coefficient inputs of the plain recompose table.
fn s_recompose_coefficients() -> Scenario {
    use p3_symmetric::Permutation;
    let mut b = kb4_builder();
    let p: Vec<ExprId> = (0..4).map(|_| b.public_input()).collect();
    let e = b.recompose_base_coeffs_to_ext::<KB>(&p).unwrap();
    let zero = b.define_const(E4::ZERO);
    let (_id, outs) = b
        .add_poseidon2_perm(&Poseidon2PermCall {
            config: Poseidon2Config::KOALA_BEAR_D4_W16,
            new_start: true,
            merkle_path: false,
            mmcs_bit: None,
            mmcs_bit2: None,
            inputs: vec![Some(e), Some(zero), Some(zero), Some(zero)],
            out_ctl: vec![true, true],
            return_all_outputs: false,
            mmcs_index_sum: None,
        })
        .unwrap();
    let exp = b.public_input();
    b.connect(outs[0].unwrap(), exp);
    let circuit = b.build().unwrap();
    let k = match kb4_setup(&circuit) {
        Ok(k) => k,
        Err(e) => return Scenario { id: "recompose-coefficients-unbound", properties: &["C04"], what: "", honest: e, forged: None, accepted: false, detail: json!({}) },
    };
    let coeffs = [KB::from_u64(1), KB::from_u64(2), KB::from_u64(3), KB::from_u64(4)];
    let mut st = [KB::ZERO; 16];
    st[..4].copy_from_slice(&coeffs);
    let o = default_koalabear_poseidon2_16().permute(st);
    let exp_val = E4::from_basis_coefficients_slice(&o[..4]).unwrap();
    let mut pubs: Vec<E4> = coeffs.iter().map(|&c| E4::from(c)).collect();
    pubs.push(exp_val);
    let mut runner = circuit.runner();
    runner.set_public_inputs(&pubs).unwrap();
    let mut traces = runner.run().unwrap();
    let hv = kb4_prove_verify(&k, &traces);
    // the Public table now claims coefficient p0 = 999 while the hash is the one of (1,2,3,4)
    traces.public_trace.values[0] = E4::from(KB::from_u64(999));
    let fv = kb4_prove_verify(&k, &traces);
    Scenario {
        id: "recompose-coefficients-unbound",
        properties: &["C04"],
        what: "plain `recompose` table: x = recompose(p0..p3) feeds a permutation whose output is public; the Public table row of p0 is changed to 999 without touching anything else: the proof then claims hash(recompose(999,2,3,4)) = hash(recompose(1,2,3,4))",
        honest: vstr(&hv),
        accepted: fv == Verdict::Accepted,
        forged: Some(vstr(&fv)),
        detail: json!({"coefficients": [1, 2, 3, 4], "forged_p0": 999}),
    }
}

/// A permutation executor that lets the real permutation write the exposed (rate) outputs only
/// and chooses the non-exposed capacity outputs itself.
#[derive(Debug)]
struct EvilPerm {
    inner: Box<dyn NonPrimitiveExecutor<E4>>,
    evil: bool,
}
impl NonPrimitiveExecutor<E4> for EvilPerm {
    fn execute(&self, inputs: &[Vec<WitnessId>], outputs: &[Vec<WitnessId>], ctx: &mut ExecutionContext<'_, E4>) -> Result<(), CircuitError> {
        if !self.evil || outputs.len() != 4 {
            return self.inner.execute(inputs, outputs, ctx);
        }
        self.inner.execute(inputs, &outputs[..2], ctx)?;
        for o in &outputs[2..] {
            for w in o {
                ctx.set_witness(*w, E4::from(KB::from_u64(12345)))?;
            }
        }
        Ok(())
    }
    fn op_type(&self) -> &NpoTypeId {
        self.inner.op_type()
    }
    fn preprocess(&self, i: &[Vec<WitnessId>], o: &[Vec<WitnessId>], p: &mut dyn PreprocessedWriter<E4>) -> Result<(), CircuitError> {
        self.inner.preprocess(i, o, p)
    }
    fn num_exposed_outputs(&self) -> Option<usize> {
        self.inner.num_exposed_outputs()
    }
    fn boxed(&self) -> Box<dyn NonPrimitiveExecutor<E4>> {
        Box::new(EvilPerm { inner: self.inner.boxed(), evil: self.evil })
    }
}

/// S4: the capacity of the extension-degree challenger between two permutations.
fn s_challenger_capacity(variant: usize) -> Scenario {
    let perm = default_koalabear_poseidon2_16();
    let mut b = kb4_builder();
    let mut ch = CircuitChallenger::<16, 8, Poseidon2Config>::new(Poseidon2Config::KOALA_BEAR_D4_W16);
    let obs: Vec<_> = (0..9).map(|_| b.public_input()).collect();
    for &o in &obs[..8] {
        RecursiveChallenger::<KB, E4>::observe(&mut ch, &mut b, o);
    }
    let c1 = RecursiveChallenger::<KB, E4>::sample(&mut ch, &mut b);
    if variant == 1 {
        // drain the output buffer: the next challenge comes from a pure squeeze permutation
        for _ in 0..7 {
            let _ = RecursiveChallenger::<KB, E4>::sample(&mut ch, &mut b);
        }
    } else {
        RecursiveChallenger::<KB, E4>::observe(&mut ch, &mut b, obs[8]);
    }
    let c2 = RecursiveChallenger::<KB, E4>::sample(&mut ch, &mut b);
    b.tag(c1, "c1").unwrap();
    b.tag(c2, "c2").unwrap();
    let circuit: Circuit<E4> = b.build().unwrap();
    let mut nat = DuplexChallenger::<KB, Poseidon2KoalaBear<16>, 16, 8>::new(perm);
    let vals: Vec<KB> = (1..=9).map(KB::from_u64).collect();
    for v in &vals[..8] {
        nat.observe(*v);
    }
    let n1: KB = nat.sample();
    if variant == 1 {
        for _ in 0..7 {
            let _: KB = nat.sample();
        }
    } else {
        nat.observe(vals[8]);
    }
    let n2: KB = nat.sample();
    let id: &'static str = if variant == 1 { "challenger-capacity-prover-chosen:squeeze" } else { "challenger-capacity-prover-chosen:absorb" };
    let k = match kb4_setup(&circuit) {
        Ok(k) => k,
        Err(e) => return Scenario { id, properties: &["C06"], what: "", honest: e, forged: None, accepted: false, detail: json!({}) },
    };
    let pubs: Vec<E4> = vals.iter().map(|&v| E4::from(v)).collect();
    let run_with = |evil: bool| -> Result<(Traces<E4>, bool, bool), String> {
        let mut c = circuit.clone();
        let mut first = true;
        for op in c.ops.iter_mut() {
            if let Op::NonPrimitiveOpWithExecutor { executor, outputs, .. } = op {
                if outputs.len() == 4 && first {
                    let inner = executor.boxed();
                    *executor = Box::new(EvilPerm { inner, evil });
                    first = false;
                }
            }
        }
        let mut r = c.runner();
        r.set_public_inputs(&pubs).map_err(|e| format!("{e:?}"))?;
        let t = r.run().map_err(|e| format!("{e:?}"))?;
        let (v1, v2) = (*t.probe("c1").unwrap(), *t.probe("c2").unwrap());
        Ok((t, v1 == E4::from(n1), v2 == E4::from(n2)))
    };
    let honest = run_with(false);
    let hv = honest.as_ref().map(|(t, _, _)| kb4_prove_verify(&k, t));
    let forged = run_with(true);
    let (fv, c2_native) = match &forged {
        Ok((t, _, c2ok)) => (Some(kb4_prove_verify(&k, t)), Some(*c2ok)),
        Err(_) => (None, None),
    };
    // the forgery matters only if the second challenge now differs from the native one
    let harmful = c2_native == Some(false);
    Scenario {
        id,
        properties: &["C06"],
        what: "KoalaBear D4 challenger (recompose table on): observe 8 values, sample c1, observe one more, sample c2; the first permutation's executor writes a prover-chosen capacity (its non-exposed outputs): c1 stays native, c2 differs from the native challenge",
        honest: hv.map(|v| vstr(&v)).unwrap_or_else(|e| e.to_string()),
        accepted: harmful && fv == Some(Verdict::Accepted),
        forged: fv.as_ref().map(vstr).or_else(|| forged.as_ref().err().cloned()),
        detail: json!({"c2_equals_native_in_forged_run": c2_native}),
    }
}

/// S5: coefficients of an extension element that are not base-field elements.
#[allow(dead_code)]
fn s_ext_coefficients_not_base() -> Scenario {
    // a hint that returns (x, 0, 0, 0): the recomposition identity holds, the "coefficients" are not base elements
    #[derive(Debug, Clone)]
    struct MassInFirst;
    impl HintExecutor<E4> for MassInFirst {
        fn execute(&self, inputs: &[WitnessId], outputs: &[WitnessId], witness: &mut [Option<E4>]) -> Result<(), CircuitError> {
            let x = witness[inputs[0].0 as usize].unwrap();
            for (i, o) in outputs.iter().enumerate() {
                witness[o.0 as usize] = Some(if i == 0 { x } else { E4::ZERO });
            }
            Ok(())
        }
        fn boxed(&self) -> Box<dyn HintExecutor<E4>> {
            Box::new(self.clone())
        }
    }
    let id = "ext-coefficients-not-base-field";
    let perm = default_koalabear_poseidon2_16();
    let mut b = kb4_builder();
    let mut ch = CircuitChallenger::<16, 8, Poseidon2Config>::new(Poseidon2Config::KOALA_BEAR_D4_W16);
    // one base observation shifts the alignment, then an extension element, then a challenge
    let o0 = b.public_input();
    let ox = b.public_input();
    RecursiveChallenger::<KB, E4>::observe(&mut ch, &mut b, o0);
    RecursiveChallenger::<KB, E4>::observe_ext(&mut ch, &mut b, ox);
    let c1 = RecursiveChallenger::<KB, E4>::sample(&mut ch, &mut b);
    b.tag(c1, "c1").unwrap();
    let circuit: Circuit<E4> = b.build().unwrap();
    let x = E4::from_basis_coefficients_slice(&[KB::from_u64(11), KB::from_u64(22), KB::from_u64(33), KB::from_u64(44)]).unwrap();
    let mut nat = DuplexChallenger::<KB, Poseidon2KoalaBear<16>, 16, 8>::new(perm);
    nat.observe(KB::from_u64(7));
    nat.observe_algebra_element(x);
    let n1: KB = nat.sample();
    let k = match kb4_setup(&circuit) {
        Ok(k) => k,
        Err(e) => return Scenario { id, properties: &["C12", "C06"], what: "", honest: e, forged: None, accepted: false, detail: json!({}) },
    };
    let pubs = vec![E4::from(KB::from_u64(7)), x];
    let run_with = |evil: bool| -> Result<(Traces<E4>, bool), String> {
        let mut c = circuit.clone();
        if evil {
            for op in c.ops.iter_mut() {
                if let Op::Hint { executor, outputs, .. } = op {
                    if outputs.len() == 4 {
                        *executor = Box::new(MassInFirst);
                        break;
                    }
                }
            }
        }
        let mut r = c.runner();
        r.set_public_inputs(&pubs).map_err(|e| format!("{e:?}"))?;
        let t = r.run().map_err(|e| format!("{e:?}"))?;
        let v1 = *t.probe("c1").unwrap();
        Ok((t, v1 == E4::from(n1)))
    };
    let honest = run_with(false);
    let hv = honest.as_ref().map(|(t, _)| kb4_prove_verify(&k, t));
    let forged = run_with(true);
    let (fv, native) = match &forged {
        Ok((t, ok)) => (Some(kb4_prove_verify(&k, t)), Some(*ok)),
        Err(_) => (None, None),
    };
    Scenario {
        id,
        properties: &["C12", "C06"],
        what: "KoalaBear D4 challenger: observe one base value, then observe_ext(x); the decomposition hint of x returns (x,0,0,0), which satisfies the recomposition identity but is not a vector of base-field coefficients; the limbs then regroup differently and the challenge differs from the native one",
        honest: hv.map(|v| vstr(&v)).unwrap_or_else(|e| e.to_string()),
        accepted: native == Some(false) && fv == Some(Verdict::Accepted),
        forged: fv.as_ref().map(vstr).or_else(|| forged.as_ref().err().cloned()),
        detail: json!({"challenge_equals_native_in_forged_run": native}),
    }
}

pub fn all() -> Vec<Scenario> {
    // every bit position of a 3-, 8- and 30-bit decomposition (2^(j+1) must stay below the modulus)
    let mut per_bit: Vec<Scenario> = Vec::new();
    for (n, js) in [(3usize, (0..3).collect::<Vec<_>>()), (8, (0..8).collect()), (30, (0..29).collect())] {
        for j in js {
            let id = format!("non-boolean-bit:n={n}:j={j}");
            per_bit.push(catch_unwind(AssertUnwindSafe(|| s_nonboolean_bit_at(n, j))).unwrap_or_else(|_| Scenario {
                id: Box::leak(id.into_boxed_str()),
                properties: &[],
                what: "",
                honest: "panic while constructing the scenario".into(),
                forged: None,
                accepted: false,
                detail: json!({}),
            }));
        }
    }
    // every input cell of every permutation row of two real challenger circuits (+1, nothing else touched)
    type SweepFn = fn(usize, &'static str) -> Result<crate::chsweep::Swept, String>;
    // (chsweep1::Swept is the same struct: the module is generated from chsweep.rs)
    for (nm, first, f) in [("kb-d4-ext", 8usize, crate::chsweep::sweep_ext as SweepFn), ("kb-d4-ext-partial-first-block", 3, crate::chsweep::sweep_ext),
                           ("kb-d1-base-in-quintic", 8, crate::chsweep::sweep_base), ("kb-d1-base-in-quintic-partial-first-block", 3, crate::chsweep::sweep_base),
                           ("kb-d1-base-in-quintic-sample-first", 0, crate::chsweep::sweep_base),
                           // the Poseidon1 twin of the base-field challenger (its own AIR crate, preprocessor, table prover)
                           ("kb-d1-poseidon1-base-in-quintic", 8, crate::chsweep1::sweep_base), ("kb-d1-poseidon1-base-in-quintic-partial-first-block", 3, crate::chsweep1::sweep_base)] {
        match catch_unwind(AssertUnwindSafe(|| f(first, nm))) {
            Ok(Ok(sw)) if !sw.errors.is_empty() => per_bit.push(Scenario { id: Box::leak(format!("challenger-table-cell-{nm}").into_boxed_str()), properties: &["C06"], what: "", honest: format!("sweep incomplete: {}", sw.errors[0]), forged: None, accepted: false, detail: json!({"errors": sw.errors.len()}) }),
            Ok(Ok(sw)) => {
                for class in &sw.classes {
                    let acc = sw.accepted.iter().find(|a| &a.0 == class);
                    let id: &'static str = Box::leak(format!("challenger-table-cell-{nm}-{class}:rows={}", sw.rows).into_boxed_str());
                    per_bit.push(Scenario {
                        id,
                        properties: &["C06"],
                        what: "one input cell (or the index accumulator) of one Poseidon2 row of an honest challenger transcript circuit (observe 8, sample, observe 5, sample, sample(s)) is changed by +1, the rest of the traces is the honest run; one scenario per class of cell (row kind x rate / capacity x exposed on the bus or not), accepted if ANY cell of the class is accepted",
                        honest: sw.honest.into(),
                        forged: Some(match acc { Some(a) => format!("accepted for {} cell(s) of the class", a.1), None => "rejected for every cell of the class".into() }),
                        accepted: acc.is_some(),
                        detail: json!({"transcript": nm, "class": class, "rows": sw.rows, "cells_swept": sw.cells, "cells_rejected": sw.rejected, "example": acc.map(|a| a.2.clone())}),
                    });
                }
            }
            Ok(Err(e)) => per_bit.push(Scenario { id: Box::leak(format!("challenger-table-cell-{nm}").into_boxed_str()), properties: &["C06"], what: "", honest: format!("scenario construction failed: {e}"), forged: None, accepted: false, detail: json!({}) }),
            Err(_) => per_bit.push(Scenario { id: Box::leak(format!("challenger-table-cell-{nm}").into_boxed_str()), properties: &["C06"], what: "", honest: "panic while constructing the scenario".into(), forged: None, accepted: false, detail: json!({}) }),
        }
    }
    // bits of a decomposition in a degree-4 extension circuit: non-zero higher coefficients, for every shape and two packings
    for shape in crate::extbits::SHAPES {
        for (pk, packing) in [("lanes1", TablePacking::new(1, 1)), ("default", TablePacking::default())] {
            let id: &'static str = Box::leak(format!("ext-bit-higher-coefficients:{shape}:{pk}").into_boxed_str());
            let r = catch_unwind(AssertUnwindSafe(|| crate::extbits::run(shape, 4, packing)));
            per_bit.push(match r {
                Ok(Ok((honest_ok, accepted, how))) => Scenario {
                    id,
                    properties: &["C12"],
                    what: "decompose_to_bits::<BabyBear>(x, 4) over BinomialExtensionField<BabyBear, 4>; the hint emits bits whose higher coefficients are non-zero (single: one coefficient of one bit; cancel-in-x: two bits, cancelling in the recomposition; zero-sum: additionally the higher coefficients of every bit sum to zero); x and the exposed 5 * bit_0 follow the forged bits; real runner, prover, verifier",
                    honest: if honest_ok { "accepted".into() } else { "honest decomposition refused".into() },
                    forged: Some(how),
                    accepted,
                    detail: json!({"shape": shape, "packing": pk}),
                },
                Ok(Err(e)) => Scenario { id, properties: &[], what: "", honest: format!("scenario construction failed: {e}"), forged: None, accepted: false, detail: json!({}) },
                Err(_) => Scenario { id, properties: &[], what: "", honest: "panic while constructing the scenario".into(), forged: None, accepted: false, detail: json!({}) },
            });
        }
    }
    // coefficients of an extension element reaching ordinary ALU consumers: one consumer row reads another value than the slot holds
    for which in 0..4usize {
        for (pk, packing) in [("lanes1", TablePacking::new(1, 1)), ("default", TablePacking::default())] {
            let id: &'static str = Box::leak(format!("ext-coefficient-consumer-reads-other-value:coeff={which}:{pk}").into_boxed_str());
            let r = catch_unwind(AssertUnwindSafe(|| crate::extbits::coeff_consumer(which, packing)));
            per_bit.push(match r {
                Ok(Ok((honest_ok, accepted, how))) => Scenario {
                    id,
                    properties: &["C12", "C09", "C04"],
                    what: "decompose_ext_to_base_coeffs::<BabyBear>(x) over BinomialExtensionField<BabyBear, 4> (ALU recomposition path), y = sum (1000 + k_i) * c_i with the coefficient as the first operand of a multiplication; in a clone of the circuit the multiplication of ONE coefficient reads the next coefficient's slot, the real runner propagates (y follows), the row's index is restored: the table row claims slot c_i with another value; proven with the prover data of the original circuit",
                    honest: if honest_ok { "accepted".into() } else { "honest decomposition refused".into() },
                    forged: Some(how),
                    accepted,
                    detail: json!({"coefficient": which, "packing": pk}),
                },
                Ok(Err(e)) => Scenario { id, properties: &[], what: "", honest: format!("scenario construction failed: {e}"), forged: None, accepted: false, detail: json!({}) },
                Err(_) => Scenario { id, properties: &[], what: "", honest: "panic while constructing the scenario".into(), forged: None, accepted: false, detail: json!({}) },
            });
        }
    }
    // base-field challenger: one capacity element altered between two permutations, for every capacity slot
    for slot in crate::capchain::SLOTS {
        let id: &'static str = Box::leak(format!("challenger-capacity-chain-base:slot={slot}").into_boxed_str());
        let r = catch_unwind(AssertUnwindSafe(|| crate::capchain::run_slot(slot)));
        per_bit.push(match r {
            Ok((honest_ok, accepted, differs)) => Scenario {
                id,
                properties: &["C06"],
                what: "KoalaBear D1 W16 challenger in a quintic circuit: observe 8, sample c1, observe 8, sample c2; the permutation executor alters ONE capacity element of the first permutation's output and computes everything downstream honestly, so only the row-to-row capacity chain of the Poseidon2 AIR is violated; c2 then differs from the native challenge",
                honest: if honest_ok { "accepted".into() } else { "honest transcript refused".into() },
                forged: Some(if accepted { "accepted".into() } else { "rejected".into() }),
                accepted: accepted && differs,
                detail: json!({"slot": slot, "c2_differs_from_native": differs}),
            },
            Err(_) => Scenario { id, properties: &[], what: "", honest: "panic while constructing the scenario".into(), forged: None, accepted: false, detail: json!({}) },
        });
    }
    // the Poseidon1 twin: capacity between two permutations, and the initial capacity of the first permutation (row 0 of the table)
    for (wname, wh) in [("between", crate::capchain1::Where::Between), ("initial", crate::capchain1::Where::Initial)] {
        for slot in crate::capchain1::SLOTS {
            let id: &'static str = Box::leak(format!("challenger-capacity-poseidon1-base-{wname}:slot={slot}").into_boxed_str());
            let r = catch_unwind(AssertUnwindSafe(|| crate::capchain1::run_slot(wh, slot)));
            per_bit.push(match r {
                Ok((honest_ok, accepted, differs, herr)) => Scenario {
                    id,
                    properties: &["C06"],
                    what: "KoalaBear D1 W16 POSEIDON1 challenger in a quintic circuit: observe 8, sample c1, observe 8, sample c2; the permutation executor alters ONE capacity element - of the first permutation's output (between) or of its input, i.e. the initial capacity of the transcript, the table row showing the input actually permuted (initial) - and computes everything downstream honestly; the claimed challenges then differ from the native ones",
                    honest: if honest_ok { "accepted".into() } else { format!("honest transcript refused: {herr}") },
                    forged: Some(if accepted { "accepted".into() } else { "rejected".into() }),
                    accepted: accepted && differs,
                    detail: json!({"slot": slot, "where": wname, "challenges_differ_from_native": differs}),
                },
                Err(_) => Scenario { id, properties: &[], what: "", honest: "panic while constructing the scenario".into(), forged: None, accepted: false, detail: json!({}) },
            });
        }
    }
    let fs: Vec<(&str, fn() -> Scenario)> = vec![
        ("non-boolean-bits", s_nonboolean_bits),
        ("bits-of-x-plus-p:n=31", || s_bits_of_x_plus_p(31, 4)),
        ("bits-of-x-plus-p:n=31", || s_bits_of_x_plus_p(31, 1 << 20)),
        ("bits-of-x-plus-p:n=30", || s_bits_of_x_plus_p(30, 4)),
        ("bits-of-x-plus-p:n=16", || s_bits_of_x_plus_p(16, 5)),
        ("recompose-coefficients-unbound", s_recompose_coefficients),
        ("challenger-capacity-prover-chosen:absorb", || s_challenger_capacity(0)),
        ("challenger-capacity-prover-chosen:squeeze", || s_challenger_capacity(1)),
    ];
    fs.into_iter()
        .map(|(id, f)| {
            catch_unwind(AssertUnwindSafe(f)).unwrap_or_else(|_| Scenario {
                id: Box::leak(id.to_string().into_boxed_str()),
                properties: &[],
                what: "",
                honest: "panic while constructing the scenario".into(),
                forged: None,
                accepted: false,
                detail: json!({}),
            })
        })
        .chain(per_bit)
        .collect()
}

/// Runner fault scenarios on a circuit with a non-primitive (permutation) op whose executor reads
/// its inputs through `ExecutionContext`: outcome class per scenario.
pub fn npo_runner_faults() -> Vec<(String, String)> {
    let mut out = Vec::new();
    let build = |private: bool| {
        let mut b = kb4_builder();
        let e = if private { b.alloc_private_input("x") } else { b.public_input() };
        let zero = b.define_const(E4::ZERO);
        let (_id, outs) = b
            .add_poseidon2_perm(&Poseidon2PermCall {
                config: Poseidon2Config::KOALA_BEAR_D4_W16,
                new_start: true,
                merkle_path: false,
                mmcs_bit: None,
                mmcs_bit2: None,
                inputs: vec![Some(e), Some(zero), Some(zero), Some(zero)],
                out_ctl: vec![true, true],
                return_all_outputs: false,
                mmcs_index_sum: None,
            })
            .unwrap();
        let _ = outs;
        b.build().unwrap()
    };
    let classify = |r: std::thread::Result<Result<(), String>>| match r {
        Ok(Ok(())) => "ok".to_string(),
        Ok(Err(e)) => format!("err:{}", e.split(|c: char| !c.is_alphanumeric()).next().unwrap_or("")),
        Err(_) => "panic".to_string(),
    };
    let x = E4::from(KB::from_u64(5));
    for (name, private, provide) in [("perm_private_input_honest", true, true), ("perm_private_input_withheld", true, false),
        ("perm_public_input_honest", false, true), ("perm_public_input_withheld", false, false)] {
        let r = catch_unwind(AssertUnwindSafe(|| -> Result<(), String> {
            let c = build(private);
            let mut runner = c.runner();
            if provide {
                if private {
                    runner.set_private_inputs(&[x]).map_err(|e| format!("{e:?}"))?;
                } else {
                    runner.set_public_inputs(&[x]).map_err(|e| format!("{e:?}"))?;
                }
            }
            runner.run().map(|_| ()).map_err(|e| format!("{e:?}"))
        }));
        out.push((name.to_string(), classify(r)));
    }
    // the output of a non-primitive executor tied (connect) to a value the caller pins - a public input, a private input, a
    // constant: the executor's write into the already populated slot is the only place the contradiction can be seen
    // (ExecutionContext::set_witness), for the permutation and for the recompose table
    {
        use p3_symmetric::Permutation;
        let xs = [KB::from_u64(1), KB::from_u64(2), KB::from_u64(3), KB::from_u64(4)];
        let x = E4::from_basis_coefficients_slice(&xs).unwrap();
        let mut st = [KB::ZERO; 16];
        st[..4].copy_from_slice(&xs);
        let o = default_koalabear_poseidon2_16().permute(st);
        let digest = [E4::from_basis_coefficients_slice(&o[..4]).unwrap(), E4::from_basis_coefficients_slice(&o[4..8]).unwrap()];
        // pin: 0 = public input, 1 = private input, 2 = constant; limb: which exposed output is tied
        let build_perm = |pin: usize, limb: usize, pinned: E4| {
            let mut b = kb4_builder();
            let e = b.public_input();
            let zero = b.define_const(E4::ZERO);
            let (_id, outs) = b
                .add_poseidon2_perm(&Poseidon2PermCall {
                    config: Poseidon2Config::KOALA_BEAR_D4_W16,
                    new_start: true,
                    merkle_path: false,
                    mmcs_bit: None,
                    mmcs_bit2: None,
                    inputs: vec![Some(e), Some(zero), Some(zero), Some(zero)],
                    out_ctl: vec![true, true],
                    return_all_outputs: false,
                    mmcs_index_sum: None,
                })
                .unwrap();
            let d = match pin {
                0 => b.public_input(),
                1 => b.alloc_private_input("claimed"),
                _ => b.define_const(pinned),
            };
            b.connect(outs[limb].unwrap(), d);
            b.build().unwrap()
        };
        let build_rec = |pin: usize, pinned: E4| {
            let mut b = kb4_builder();
            let p: Vec<ExprId> = (0..4).map(|_| b.public_input()).collect();
            let e = b.recompose_base_coeffs_to_ext::<KB>(&p).unwrap();
            let d = match pin {
                0 => b.public_input(),
                1 => b.alloc_private_input("claimed"),
                _ => b.define_const(pinned),
            };
            b.connect(e, d);
            b.build().unwrap()
        };
        for pin in 0..3usize {
            let pn = ["public", "private", "const"][pin];
            for limb in 0..2usize {
                for (suffix, val) in [("honest", digest[limb]), ("conflict", digest[limb] + E4::ONE)] {
                    let r = catch_unwind(AssertUnwindSafe(|| -> Result<(), String> {
                        let c = build_perm(pin, limb, val);
                        let mut runner = c.runner();
                        let mut pubs = vec![x];
                        if pin == 0 {
                            pubs.push(val);
                        }
                        runner.set_public_inputs(&pubs).map_err(|e| format!("{e:?}"))?;
                        if pin == 1 {
                            runner.set_private_inputs(&[val]).map_err(|e| format!("{e:?}"))?;
                        }
                        runner.run().map(|_| ()).map_err(|e| format!("{e:?}"))
                    }));
                    out.push((format!("perm_output{limb}_pinned_{pn}_{suffix}"), classify(r)));
                }
            }
            for (suffix, val) in [("honest", x), ("conflict", x + E4::ONE)] {
                let r = catch_unwind(AssertUnwindSafe(|| -> Result<(), String> {
                    let c = build_rec(pin, val);
                    let mut runner = c.runner();
                    let mut pubs: Vec<E4> = xs.iter().map(|&c| E4::from(c)).collect();
                    if pin == 0 {
                        pubs.push(val);
                    }
                    runner.set_public_inputs(&pubs).map_err(|e| format!("{e:?}"))?;
                    if pin == 1 {
                        runner.set_private_inputs(&[val]).map_err(|e| format!("{e:?}"))?;
                    }
                    runner.run().map(|_| ()).map_err(|e| format!("{e:?}"))
                }));
                out.push((format!("recompose_output_pinned_{pn}_{suffix}"), classify(r)));
            }
        }
    }
    out
}
