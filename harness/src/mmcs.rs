//! C08 — replay of `Mmcs` cases: the in-circuit Merkle (MMCS) opening verification of
//! `p3_recursion::pcs::{verify_batch_circuit, verify_batch_circuit_from_extension_opened, *_arity4}`
//! against the native `MerkleTreeMmcs` / `MerkleTreeHidingMmcs` / `ExtensionMmcs::verify_batch`.
//!
//! Per case: random matrices (seeded) -> native commit -> native open at `index` -> the fault is applied to
//! the data handed to BOTH verifiers -> native `verify_batch` (accept / reject / panic) -> the repository's
//! circuit is built for the (possibly faulted) dimension vector, fed the same opened values, index bits and cap
//! (public inputs), salts (private inputs) and sibling digests (NPO private data) and run
//! (satisfied / unsatisfied / panic). The property holds for the case iff accept == satisfied.
use std::panic::{AssertUnwindSafe, catch_unwind};

use p3_circuit::ops::{
    PermConfig, Poseidon1Config, Poseidon2Config, generate_poseidon1_trace, generate_poseidon2_trace, generate_recompose_trace,
    perm_private_data,
};
use p3_circuit::{Circuit, CircuitBuilder, ExprId, NonPrimitiveOpId, Op};
use p3_commit::{BatchOpeningRef, ExtensionMmcs, Mmcs};
use p3_field::extension::BinomialExtensionField;
use p3_field::{BasedVectorSpace, ExtensionField, Field, PrimeField64, TwoAdicField};
use p3_matrix::Dimensions;
use p3_matrix::dense::RowMajorMatrix;
use p3_merkle_tree::{MerkleCap, MerkleTreeHidingMmcs, MerkleTreeMmcs};
use p3_recursion::pcs::{
    verify_batch_circuit, verify_batch_circuit_arity4, verify_batch_circuit_from_extension_opened,
    verify_batch_circuit_from_extension_opened_arity4,
};
use p3_symmetric::{CryptographicHasher, PaddingFreeSponge, PseudoCompressionFunction, TruncatedPermutation};
use p3_util::log2_ceil_usize;
use rand::distr::{Distribution, StandardUniform};
use rand::rngs::{SmallRng, StdRng};
use rand::{RngExt, SeedableRng};
use serde::{Deserialize, Serialize};
use serde_json::{Value, json};

/// Salt elements per matrix row of the hiding MMCS (the value the repository's hiding tests use).
pub const SALT_ELEMS: usize = 4;
pub const CONFIGS: &[&str] = &["bb_p2", "kb_p2", "kb_p1", "gl_p2", "kb_p2_d1", "bb_p2_d1"];

#[derive(Clone, Debug, Serialize, Deserialize)]
pub struct Dim {
    pub h: usize,
    pub w: usize,
}

#[derive(Clone, Debug, Default, Serialize, Deserialize)]
pub struct Fault {
    pub kind: String,
    #[serde(default, skip_serializing_if = "Option::is_none")]
    pub mat: Option<usize>,
    #[serde(default, skip_serializing_if = "Option::is_none")]
    pub col: Option<usize>,
    /// index of the sibling digest in the native proof (arity 2: the tree level; arity 4: flat index, up to 3 per level)
    #[serde(default, skip_serializing_if = "Option::is_none")]
    pub level: Option<usize>,
    #[serde(default, skip_serializing_if = "Option::is_none")]
    pub word: Option<usize>,
    #[serde(default, skip_serializing_if = "Option::is_none")]
    pub bit: Option<usize>,
    #[serde(default, skip_serializing_if = "Option::is_none")]
    pub entry: Option<usize>,
}

#[derive(Clone, Debug, Serialize, Deserialize)]
pub struct Case {
    #[serde(default)]
    pub spec: String,
    pub cfg: String,
    pub arity: usize,
    /// handed unchanged to the native `MerkleTreeMmcs::new(.., cap_height)`: arity 2 = log2(#cap entries);
    /// arity 4 = number of tree levels absorbed by the cap (the native meaning; #entries is reported per case)
    pub cap_height: usize,
    pub hiding: bool,
    pub ext: bool,
    pub dims: Vec<Dim>,
    pub index: usize,
    pub fault: Fault,
}

impl Case {
    pub fn shape(&self) -> String {
        let hs: Vec<usize> = self.dims.iter().map(|d| d.h).collect();
        let mixed = hs.iter().any(|&h| h != hs[0]);
        let mut s = format!("arity{}+cap{}", self.arity, self.cap_height);
        if self.hiding {
            s.push_str("+hiding");
        }
        if self.ext {
            s.push_str("+ext");
        }
        s.push_str(if mixed { "+mixed-heights" } else { "+equal-heights" });
        s.push_str(&format!("+fault-{}+{}", self.fault.kind.replace('_', "-"), self.cfg));
        s
    }
}

#[derive(Clone, Debug, Default)]
pub struct Outcome {
    /// Some(reason): the case could not be replayed (unsupported combination / fault not applicable)
    pub skipped: Option<String>,
    /// "accept" | "reject" | "panic"
    pub native: String,
    /// "satisfied" | "unsatisfied" | "panic"
    pub circuit: String,
    pub perms: usize,
    pub native_rejects_dims: bool,
    pub detail: Value,
}

/// The data both verifiers see (after the fault). Base-field leaves are carried lifted (`EF::from`).
#[derive(Clone, Debug)]
pub struct Opening<F, EF> {
    pub dims: Vec<Dimensions>,
    pub index: usize,
    pub opened: Vec<Vec<EF>>,
    pub salts: Vec<Vec<F>>,
    pub siblings: Vec<Vec<F>>,
    pub cap: Vec<Vec<F>>,
}

/// The two native proof layouts: plain `Vec<digest>` and hiding `(salts, Vec<digest>)`.
pub trait ProofParts<F, const DIG: usize>: Sized {
    fn split(self) -> (Vec<Vec<F>>, Vec<[F; DIG]>);
    fn join(salts: Vec<Vec<F>>, sib: Vec<[F; DIG]>) -> Self;
}
impl<F, const DIG: usize> ProofParts<F, DIG> for Vec<[F; DIG]> {
    fn split(self) -> (Vec<Vec<F>>, Vec<[F; DIG]>) {
        (Vec::new(), self)
    }
    fn join(_: Vec<Vec<F>>, sib: Vec<[F; DIG]>) -> Self {
        sib
    }
}
impl<F, const DIG: usize> ProofParts<F, DIG> for (Vec<Vec<F>>, Vec<[F; DIG]>) {
    fn split(self) -> (Vec<Vec<F>>, Vec<[F; DIG]>) {
        self
    }
    fn join(salts: Vec<Vec<F>>, sib: Vec<[F; DIG]>) -> Self {
        (salts, sib)
    }
}

fn rand_f<F: PrimeField64>(rng: &mut StdRng) -> F {
    F::from_u64(rng.random::<u64>() % F::ORDER_U64)
}
fn rand_ef<F: PrimeField64, EF: BasedVectorSpace<F>>(rng: &mut StdRng) -> EF {
    EF::from_basis_coefficients_fn(|_| rand_f::<F>(rng))
}
fn canon<F: PrimeField64>(v: &[F]) -> Vec<u64> {
    v.iter().map(|x| x.as_canonical_u64()).collect()
}
fn short(s: String) -> String {
    s.chars().take(240).collect()
}

fn apply_fault<F: PrimeField64, EF: ExtensionField<F>>(o: &mut Opening<F, EF>, f: &Fault) -> Result<(), String> {
    let g = |x: Option<usize>| x.unwrap_or(0);
    match f.kind.as_str() {
        "none" => {}
        "leaf" => {
            let v = o.opened.get_mut(g(f.mat)).and_then(|r| r.get_mut(g(f.col))).ok_or("leaf position outside the opening")?;
            *v += EF::ONE;
        }
        "sibling" => {
            let n = o.siblings.len();
            let v = o.siblings.get_mut(g(f.level)).and_then(|d| d.get_mut(g(f.word)))
                .ok_or(format!("sibling {}/word {} outside the proof ({n} digests)", g(f.level), g(f.word)))?;
            *v += F::ONE;
        }
        "index_bit" => {
            let nbits = log2_ceil_usize(o.dims.iter().map(|d| d.height).max().unwrap_or(1));
            if g(f.bit) >= nbits {
                return Err(format!("index bit {} outside the {nbits} index bits of the circuit interface", g(f.bit)));
            }
            o.index ^= 1 << g(f.bit);
        }
        "cap" => {
            let n = o.cap.len();
            let v = o.cap.get_mut(g(f.entry)).and_then(|d| d.get_mut(g(f.word)))
                .ok_or(format!("cap entry {}/word {} outside the cap ({n} entries)", g(f.entry), g(f.word)))?;
            *v += F::ONE;
        }
        // extra kind (not in the C08 list): one word of one matrix's salt of a hiding opening
        "salt" => {
            let v = o.salts.get_mut(g(f.mat)).and_then(|d| d.get_mut(g(f.word))).ok_or("salt position outside the opening (non-hiding?)")?;
            *v += F::ONE;
        }
        "dims_height" => {
            o.dims.get_mut(g(f.mat)).ok_or("matrix outside the batch")?.height *= 2;
        }
        k => return Err(format!("unknown fault kind {k}")),
    }
    Ok(())
}

pub struct NativeOut<F, EF> {
    pub o: Opening<F, EF>,
    pub verdict: &'static str,
    pub err: String,
    pub rejects_dims: bool,
}

/// Native side: commit, open, fault, `verify_batch`. `T` is the leaf type (`F` or `EF`).
#[allow(clippy::too_many_arguments)]
fn native_run<F, EF, T, M, const DIG: usize>(
    mmcs: &M,
    c: &Case,
    salt: usize,
    rng: &mut StdRng,
    lift: fn(T) -> EF,
    unlift: fn(EF) -> T,
    gen_t: fn(&mut StdRng) -> T,
) -> Result<NativeOut<F, EF>, String>
where
    F: PrimeField64,
    EF: ExtensionField<F>,
    T: Clone + Send + Sync,
    M: Mmcs<T, Commitment = MerkleCap<F, [F; DIG]>>,
    M::Proof: ProofParts<F, DIG>,
{
    let dims: Vec<Dimensions> = c.dims.iter().map(|d| Dimensions { height: d.h, width: d.w }).collect();
    let max_h = dims.iter().map(|d| d.height).max().unwrap_or(0);
    if max_h == 0 || dims.iter().any(|d| d.width == 0 || d.height == 0) {
        return Err("empty matrix in dims".into());
    }
    if c.index >= max_h {
        return Err(format!("index {} outside the tallest matrix ({max_h} rows)", c.index));
    }
    let mats: Vec<RowMajorMatrix<T>> =
        c.dims.iter().map(|d| RowMajorMatrix::new((0..d.h * d.w).map(|_| gen_t(rng)).collect(), d.w)).collect();
    let committed = catch_unwind(AssertUnwindSafe(|| {
        let (cm, pd) = mmcs.commit(mats);
        (cm, mmcs.open_batch(c.index, &pd))
    }));
    let (mut o, rejects_dims) = match committed {
        Ok((cm, op)) => {
            let (opened, proof) = op.unpack();
            let (salts, sib) = proof.split();
            (
                Opening {
                    dims,
                    index: c.index,
                    opened: opened.into_iter().map(|r| r.into_iter().map(lift).collect()).collect(),
                    salts,
                    siblings: sib.iter().map(|d| d.to_vec()).collect(),
                    cap: cm.roots().iter().map(|d| d.to_vec()).collect(),
                },
                false,
            )
        }
        Err(_) => {
            // the native scheme refuses to commit to these dimensions: there is no honest opening; both
            // verifiers get random data of the shape the dimensions imply
            let nbits = log2_ceil_usize(max_h);
            let o = Opening {
                opened: dims.iter().map(|d| (0..d.width).map(|_| lift(gen_t(rng))).collect()).collect(),
                salts: if salt > 0 { dims.iter().map(|_| (0..salt).map(|_| rand_f(rng)).collect()).collect() } else { Vec::new() },
                siblings: (0..(c.arity - 1) * nbits.saturating_sub(c.cap_height)).map(|_| (0..DIG).map(|_| rand_f(rng)).collect()).collect(),
                cap: (0..1usize << c.cap_height.min(nbits)).map(|_| (0..DIG).map(|_| rand_f(rng)).collect()).collect(),
                dims,
                index: c.index,
            };
            (o, true)
        }
    };
    apply_fault(&mut o, &c.fault).map_err(|e| format!("fault-not-applicable: {e}"))?;

    let opened_t: Vec<Vec<T>> = o.opened.iter().map(|r| r.iter().map(|&e| unlift(e)).collect()).collect();
    let arr = |v: &Vec<F>| -> [F; DIG] { core::array::from_fn(|i| v[i]) };
    let proof = <M::Proof as ProofParts<F, DIG>>::join(o.salts.clone(), o.siblings.iter().map(arr).collect());
    let cap_arr: Vec<[F; DIG]> = o.cap.iter().map(arr).collect();
    let r = catch_unwind(AssertUnwindSafe(|| {
        let cap = MerkleCap::new(cap_arr);
        mmcs.verify_batch(&cap, &o.dims, o.index, BatchOpeningRef::new(&opened_t, &proof))
    }));
    let (verdict, err) = match r {
        Ok(Ok(())) => ("accept", String::new()),
        Ok(Err(e)) => ("reject", short(format!("{e:?}"))),
        Err(_) => ("panic", "panic in native verify_batch".into()),
    };
    Ok(NativeOut { o, verdict, err, rejects_dims })
}

pub fn count_perm_ops<EF: Field>(c: &Circuit<EF>) -> usize {
    c.ops
        .iter()
        .filter(|op| matches!(op, Op::NonPrimitiveOpWithExecutor { executor, .. } if executor.op_type().as_str().contains("poseidon")))
        .count()
}

/// `D` base digest words -> one packed extension limb (the layout of the repository's own tests).
fn pack<F: Field, EF: BasedVectorSpace<F>>(digest: &[F]) -> Vec<EF> {
    let d = EF::DIMENSION;
    digest.chunks(d).map(|ch| EF::from_basis_coefficients_fn(|i| ch.get(i).copied().unwrap_or(F::ZERO))).collect()
}

thread_local! {
    /// When set, `circuit_run` leaves the circuit and the traces of a successful run here (used by the C04 sweep over the
    /// cells of the Poseidon2 table: the same circuits, proven and verified).
    static CAPTURE: std::cell::RefCell<Option<Option<Box<dyn std::any::Any>>>> = const { std::cell::RefCell::new(None) };
}

/// Circuit and traces of the honest run of one MMCS case (KoalaBear D4, Poseidon2 W16, arity 2).
pub fn capture_kb4(c: &Case, seed: u64) -> Option<(Circuit<BinomialExtensionField<p3_koala_bear::KoalaBear, 4>>, p3_circuit::Traces<BinomialExtensionField<p3_koala_bear::KoalaBear, 4>>)> {
    CAPTURE.with(|s| *s.borrow_mut() = Some(None));
    let _ = replay_case(c, seed);
    let got = CAPTURE.with(|s| s.borrow_mut().take()).flatten()?;
    got.downcast::<(Circuit<BinomialExtensionField<p3_koala_bear::KoalaBear, 4>>, p3_circuit::Traces<BinomialExtensionField<p3_koala_bear::KoalaBear, 4>>)>().ok().map(|b| *b)
}

pub struct CircuitOut {
    pub verdict: &'static str,
    pub err: String,
    pub perms: usize,
    pub ops: usize,
    /// number of sibling digests the circuit's Merkle path consumes (op-id occurrences)
    pub slots: usize,
}

/// Circuit side: the repository's verifier for (arity, ext, hiding), fed as its own tests feed it.
fn circuit_run<F, EF>(mk: &dyn Fn() -> CircuitBuilder<EF>, pc: PermConfig, c: &Case, o: &Opening<F, EF>) -> CircuitOut
where
    F: PrimeField64 + TwoAdicField,
    EF: ExtensionField<F>,
{
    let nbits = log2_ceil_usize(o.dims.iter().map(|d| d.height).max().unwrap_or(1));
    let d = <EF as BasedVectorSpace<F>>::DIMENSION;
    let out = |verdict, err: String, perms, ops, slots| CircuitOut { verdict, err: short(err), perms, ops, slots };
    let built = catch_unwind(AssertUnwindSafe(|| -> Result<(Circuit<EF>, Vec<NonPrimitiveOpId>), String> {
        let mut b = mk();
        let opened: Vec<Vec<ExprId>> = o.opened.iter().map(|r| r.iter().map(|_| b.public_input()).collect()).collect();
        let bits = b.alloc_public_inputs(nbits, "index bits");
        let cap: Vec<Vec<ExprId>> = o.cap.iter().map(|e| b.alloc_public_inputs(e.len().div_ceil(d), "cap entry")).collect();
        let salts: Option<Vec<Vec<ExprId>>> =
            c.hiding.then(|| o.salts.iter().map(|s| b.alloc_private_inputs(s.len(), "hiding MMCS leaf salt")).collect());
        let ids = match (c.arity, c.ext) {
            (2, false) => verify_batch_circuit::<F, EF>(&mut b, pc, &cap, &o.dims, &bits, &opened, salts.as_deref()),
            (2, true) => verify_batch_circuit_from_extension_opened::<F, EF>(&mut b, pc, &cap, &o.dims, &bits, &opened, salts.as_deref()),
            (4, false) => verify_batch_circuit_arity4::<F, EF>(&mut b, pc, &cap, &o.dims, &bits, &opened),
            (4, true) => verify_batch_circuit_from_extension_opened_arity4::<F, EF>(&mut b, pc, &cap, &o.dims, &bits, &opened),
            _ => return Err("arity".into()),
        }
        .map_err(|e| format!("verifier construction: {e:?}"))?;
        let circuit = b.build().map_err(|e| format!("circuit build: {e:?}"))?;
        Ok((circuit, ids))
    }));
    let (circuit, ids) = match built {
        Ok(Ok(x)) => x,
        Ok(Err(e)) => return out("unsatisfied", e, 0, 0, 0),
        Err(_) => return out("panic", "panic while building the verification circuit".into(), 0, 0, 0),
    };
    let perms = count_perm_ops(&circuit);
    let nops = circuit.ops.len();
    let run = catch_unwind(AssertUnwindSafe(|| -> Result<(), String> {
        let mut r = circuit.runner();
        let mut pubs: Vec<EF> = o.opened.iter().flatten().copied().collect();
        pubs.extend((0..nbits).map(|k| EF::from_bool((o.index >> k) & 1 == 1)));
        for e in &o.cap {
            pubs.extend(pack::<F, EF>(e));
        }
        r.set_public_inputs(&pubs).map_err(|e| format!("DRIVER set_public_inputs: {e:?}"))?;
        if c.hiding {
            let priv_in: Vec<EF> = o.salts.iter().flatten().map(|&s| EF::from(s)).collect();
            r.set_private_inputs(&priv_in).map_err(|e| format!("DRIVER set_private_inputs: {e:?}"))?;
        }
        // sibling digests: NPO private data, one digest per op-id occurrence (arity 4: consecutive equal
        // op-ids form one compression row: their digests are concatenated and zero-padded to 3 digests)
        let mut sib = o.siblings.iter();
        let mut i = 0;
        while i < ids.len() {
            let id = ids[i];
            let mut flat: Vec<EF> = Vec::new();
            let mut n = 0;
            while i < ids.len() && ids[i] == id {
                if let Some(s) = sib.next() {
                    flat.extend(pack::<F, EF>(s));
                }
                i += 1;
                n += 1;
            }
            if c.arity == 4 {
                flat.resize(3 * pc.capacity_ext(), EF::ZERO);
            } else if n != 1 {
                return Err("DRIVER: repeated op-id in an arity-2 path".into());
            }
            if !flat.is_empty() {
                r.set_private_data(id, perm_private_data(pc, flat)).map_err(|e| format!("DRIVER set_private_data: {e:?}"))?;
            }
        }
        let ran = r.run().map_err(|e| format!("{e:?}"));
        let ran = ran.map(|traces| {
            CAPTURE.with(|s| {
                if let Some(slot) = s.borrow_mut().as_mut() {
                    *slot = Some(Box::new(traces) as Box<dyn std::any::Any>);
                }
            });
        });
        // the repository's own private-data setters (`set_fri_mmcs_private_data[_arity4]`) return an error when the
        // number of proof digests differs from the number of sibling slots of the circuit path: such a proof
        // cannot be handed to the circuit, whatever the (zero-filled) run above says
        if o.siblings.len() != ids.len() {
            return Err(format!("proof shape: opening proof has {} digests, the circuit path takes {}; run: {:?}", o.siblings.len(), ids.len(), ran.err()));
        }
        ran
    }));
    // pair the captured traces with the circuit they belong to
    CAPTURE.with(|s| {
        if let Some(slot) = s.borrow_mut().as_mut() {
            if let Some(b) = slot.take() {
                if let Ok(t) = b.downcast::<p3_circuit::Traces<EF>>() {
                    *slot = Some(Box::new((circuit, *t)) as Box<dyn std::any::Any>);
                }
            }
        }
    });
    match run {
        Ok(Ok(())) => out("satisfied", String::new(), perms, nops, ids.len()),
        Ok(Err(e)) => out("unsatisfied", e, perms, nops, ids.len()),
        Err(_) => out("panic", "panic in the circuit runner".into(), perms, nops, ids.len()),
    }
}

/// One (field, permutation, arity) instantiation: the four native variants (plain / hiding x base / ext leaves).
fn run_with<F, EF, P, const W: usize, const R: usize, const N: usize, const DIG: usize>(
    perm: P,
    pc: PermConfig,
    mk: &dyn Fn() -> CircuitBuilder<EF>,
    c: &Case,
    rng: &mut StdRng,
) -> Outcome
where
    F: PrimeField64 + TwoAdicField + Serialize + serde::de::DeserializeOwned,
    EF: ExtensionField<F>,
    P: Clone,
    PaddingFreeSponge<P, W, R, DIG>: CryptographicHasher<F, [F; DIG]> + Sync + Clone,
    TruncatedPermutation<P, N, DIG, W>: PseudoCompressionFunction<[F; DIG], N> + Sync + Clone,
    [F; DIG]: Serialize + for<'de> Deserialize<'de>,
    StandardUniform: Distribution<F>,
{
    let hash = PaddingFreeSponge::<P, W, R, DIG>::new(perm.clone());
    let compress = TruncatedPermutation::<P, N, DIG, W>::new(perm);
    let lift_f: fn(F) -> EF = |x| EF::from(x);
    let unlift_f: fn(EF) -> F = |e| e.as_basis_coefficients_slice()[0];
    let id: fn(EF) -> EF = |e| e;
    let nat = if !c.hiding {
        let m = MerkleTreeMmcs::<F, F, _, _, N, DIG>::new(hash, compress, c.cap_height);
        if c.ext {
            native_run::<F, EF, EF, _, DIG>(&ExtensionMmcs::<F, EF, _>::new(m), c, 0, rng, id, id, rand_ef::<F, EF>)
        } else {
            native_run::<F, EF, F, _, DIG>(&m, c, 0, rng, lift_f, unlift_f, rand_f::<F>)
        }
    } else {
        let srng = SmallRng::seed_from_u64(rng.random::<u64>());
        let m = MerkleTreeHidingMmcs::<F, F, _, _, SmallRng, N, DIG, SALT_ELEMS>::new(hash, compress, c.cap_height, srng);
        if c.ext {
            native_run::<F, EF, EF, _, DIG>(&ExtensionMmcs::<F, EF, _>::new(m), c, SALT_ELEMS, rng, id, id, rand_ef::<F, EF>)
        } else {
            native_run::<F, EF, F, _, DIG>(&m, c, SALT_ELEMS, rng, lift_f, unlift_f, rand_f::<F>)
        }
    };
    let nat = match nat {
        Ok(n) => n,
        Err(e) => return Outcome { skipped: Some(e), ..Default::default() },
    };
    let cir = circuit_run::<F, EF>(mk, pc, c, &nat.o);
    Outcome {
        skipped: None,
        native: nat.verdict.into(),
        circuit: cir.verdict.into(),
        perms: cir.perms,
        native_rejects_dims: nat.rejects_dims,
        detail: json!({
            "native_error": nat.err, "circuit_error": cir.err, "circuit_ops": cir.ops, "circuit_sibling_slots": cir.slots,
            "index_given": nat.o.index, "dims_given": nat.o.dims.iter().map(|d| [d.height, d.width]).collect::<Vec<_>>(),
            "num_roots": nat.o.cap.len(), "proof_len": nat.o.siblings.len(),
            "opened": nat.o.opened.iter().map(|r| r.iter().map(|e| canon::<F>(e.as_basis_coefficients_slice())).collect::<Vec<_>>()).collect::<Vec<_>>(),
            "cap": nat.o.cap.iter().map(|e| canon(e)).collect::<Vec<_>>(),
            "siblings": nat.o.siblings.iter().map(|e| canon(e)).collect::<Vec<_>>(),
            "salts": nat.o.salts.iter().map(|e| canon(e)).collect::<Vec<_>>(),
        }),
    }
}

fn skip(reason: &str) -> Outcome {
    Outcome { skipped: Some(reason.into()), ..Default::default() }
}

/// Replay one case. `seed` is already case-specific.
pub fn replay_case(c: &Case, seed: u64) -> Outcome {
    let mut rng = StdRng::seed_from_u64(seed);
    let rng = &mut rng;
    if c.arity != 2 && c.arity != 4 {
        return skip("arity other than 2 and 4");
    }
    if c.arity == 4 && c.hiding {
        return skip("hiding with arity 4: verify_batch_circuit_arity4 / ..._from_extension_opened_arity4 take no salts");
    }
    if c.dims.is_empty() {
        return skip("empty dims");
    }
    match c.cfg.as_str() {
        "bb_p2" => {
            use p3_baby_bear::{BabyBear as F, default_babybear_poseidon2_16, default_babybear_poseidon2_32};
            use p3_poseidon2_circuit_air::{BabyBearD4Width16, BabyBearD4Width32};
            type EF = BinomialExtensionField<F, 4>;
            if c.arity == 2 {
                let mk = || {
                    let mut b = CircuitBuilder::<EF>::new();
                    b.enable_poseidon2_perm::<BabyBearD4Width16, _>(generate_poseidon2_trace::<EF, BabyBearD4Width16>, default_babybear_poseidon2_16());
                    b.enable_recompose::<F>(generate_recompose_trace::<F, EF>);
                    b
                };
                run_with::<F, EF, _, 16, 8, 2, 8>(default_babybear_poseidon2_16(), Poseidon2Config::BABY_BEAR_D4_W16.into(), &mk, c, rng)
            } else {
                let mk = || {
                    let mut b = CircuitBuilder::<EF>::new();
                    b.enable_poseidon2_perm_width_32::<BabyBearD4Width32, _>(generate_poseidon2_trace::<EF, BabyBearD4Width32>, default_babybear_poseidon2_32());
                    b.enable_recompose::<F>(generate_recompose_trace::<F, EF>);
                    b
                };
                run_with::<F, EF, _, 32, 24, 4, 8>(default_babybear_poseidon2_32(), Poseidon2Config::BABY_BEAR_D4_W32.into(), &mk, c, rng)
            }
        }
        "kb_p2" => {
            use p3_koala_bear::{KoalaBear as F, default_koalabear_poseidon2_16, default_koalabear_poseidon2_32};
            use p3_poseidon2_circuit_air::{KoalaBearD4Width16, KoalaBearD4Width32};
            type EF = BinomialExtensionField<F, 4>;
            if c.arity == 2 {
                let mk = || {
                    let mut b = CircuitBuilder::<EF>::new();
                    b.enable_poseidon2_perm::<KoalaBearD4Width16, _>(generate_poseidon2_trace::<EF, KoalaBearD4Width16>, default_koalabear_poseidon2_16());
                    b.enable_recompose::<F>(generate_recompose_trace::<F, EF>);
                    b
                };
                run_with::<F, EF, _, 16, 8, 2, 8>(default_koalabear_poseidon2_16(), Poseidon2Config::KOALA_BEAR_D4_W16.into(), &mk, c, rng)
            } else {
                let mk = || {
                    let mut b = CircuitBuilder::<EF>::new();
                    b.enable_poseidon2_perm_width_32::<KoalaBearD4Width32, _>(generate_poseidon2_trace::<EF, KoalaBearD4Width32>, default_koalabear_poseidon2_32());
                    b.enable_recompose::<F>(generate_recompose_trace::<F, EF>);
                    b
                };
                run_with::<F, EF, _, 32, 24, 4, 8>(default_koalabear_poseidon2_32(), Poseidon2Config::KOALA_BEAR_D4_W32.into(), &mk, c, rng)
            }
        }
        "kb_p1" => {
            use p3_koala_bear::{KoalaBear as F, default_koalabear_poseidon1_16};
            use p3_circuit::ops::poseidon1_perm::KoalaBearD4Width16;
            type EF = BinomialExtensionField<F, 4>;
            if c.arity == 4 {
                return skip("Poseidon1 has no wide (arity-4) permutation configuration in the repository");
            }
            let mk = || {
                let mut b = CircuitBuilder::<EF>::new();
                b.enable_poseidon1_perm::<KoalaBearD4Width16, _>(generate_poseidon1_trace::<EF, KoalaBearD4Width16>, default_koalabear_poseidon1_16());
                b.enable_recompose::<F>(generate_recompose_trace::<F, EF>);
                b
            };
            run_with::<F, EF, _, 16, 8, 2, 8>(default_koalabear_poseidon1_16(), Poseidon1Config::KOALA_BEAR_D4_W16.into(), &mk, c, rng)
        }
        "gl_p2" => {
            use p3_circuit::ops::GoldilocksD2Width8;
            use p3_goldilocks::{Goldilocks as F, Poseidon2Goldilocks};
            use p3_poseidon2_circuit_air::GoldilocksD2Width16;
            type EF = BinomialExtensionField<F, 2>;
            if c.arity == 2 {
                let p = || Poseidon2Goldilocks::<8>::new_from_rng_128(&mut SmallRng::seed_from_u64(1));
                let mk = || {
                    let mut b = CircuitBuilder::<EF>::new();
                    b.enable_poseidon2_perm_width_8::<GoldilocksD2Width8, _>(generate_poseidon2_trace::<EF, GoldilocksD2Width8>, p());
                    b.enable_recompose::<F>(generate_recompose_trace::<F, EF>);
                    b
                };
                run_with::<F, EF, _, 8, 4, 2, 4>(p(), Poseidon2Config::GOLDILOCKS_D2_W8.into(), &mk, c, rng)
            } else {
                let p = || Poseidon2Goldilocks::<16>::new_from_rng_128(&mut SmallRng::seed_from_u64(1));
                let mk = || {
                    let mut b = CircuitBuilder::<EF>::new();
                    b.enable_poseidon2_perm::<GoldilocksD2Width16, _>(generate_poseidon2_trace::<EF, GoldilocksD2Width16>, p());
                    b.enable_recompose::<F>(generate_recompose_trace::<F, EF>);
                    b
                };
                run_with::<F, EF, _, 16, 12, 4, 4>(p(), Poseidon2Config::GOLDILOCKS_D2_W16.into(), &mk, c, rng)
            }
        }
        // circuits over the base field itself (D = 1): `ext` leaves coincide with base leaves
        "kb_p2_d1" => {
            use p3_circuit::ops::KoalaBearD1Width16;
            use p3_koala_bear::{KoalaBear as F, default_koalabear_poseidon2_16, default_koalabear_poseidon2_32};
            use p3_poseidon2_circuit_air::KoalaBearD1Width32;
            if c.arity == 2 {
                let mk = || {
                    let mut b = CircuitBuilder::<F>::new();
                    b.enable_poseidon2_perm_base::<KoalaBearD1Width16, _>(generate_poseidon2_trace::<F, KoalaBearD1Width16>, default_koalabear_poseidon2_16());
                    b.enable_recompose::<F>(generate_recompose_trace::<F, F>);
                    b
                };
                run_with::<F, F, _, 16, 8, 2, 8>(default_koalabear_poseidon2_16(), Poseidon2Config::KOALA_BEAR_D1_W16.into(), &mk, c, rng)
            } else {
                let mk = || {
                    let mut b = CircuitBuilder::<F>::new();
                    b.enable_poseidon2_perm_base_width_32::<KoalaBearD1Width32, _>(generate_poseidon2_trace::<F, KoalaBearD1Width32>, default_koalabear_poseidon2_32());
                    b.enable_recompose::<F>(generate_recompose_trace::<F, F>);
                    b
                };
                run_with::<F, F, _, 32, 24, 4, 8>(default_koalabear_poseidon2_32(), Poseidon2Config::KOALA_BEAR_D1_W32.into(), &mk, c, rng)
            }
        }
        "bb_p2_d1" => {
            use p3_baby_bear::{BabyBear as F, default_babybear_poseidon2_16};
            use p3_circuit::ops::BabyBearD1Width16;
            if c.arity == 4 {
                return skip("no BabyBear D=1 width-32 permutation configuration in the repository");
            }
            let mk = || {
                let mut b = CircuitBuilder::<F>::new();
                b.enable_poseidon2_perm_base::<BabyBearD1Width16, _>(generate_poseidon2_trace::<F, BabyBearD1Width16>, default_babybear_poseidon2_16());
                b.enable_recompose::<F>(generate_recompose_trace::<F, F>);
                b
            };
            run_with::<F, F, _, 16, 8, 2, 8>(default_babybear_poseidon2_16(), Poseidon2Config::BABY_BEAR_D1_W16.into(), &mk, c, rng)
        }
        _ => skip("unknown cfg"),
    }
}

// ---------------------------------------------------------------------------------------------
// Test-case generator (driver self-test only; the real cases come from the TLA+ specification)
// ---------------------------------------------------------------------------------------------
pub fn gen_cases(n: usize, seed: u64) -> Vec<Case> {
    let mut rng = StdRng::seed_from_u64(seed);
    let pools: &[&[(usize, usize)]] = &[
        &[(8, 3)], &[(4, 8)], &[(16, 1)], &[(2, 5)], &[(1, 4)], &[(32, 17)], &[(64, 4)],
        &[(8, 7), (8, 9)], &[(8, 3), (4, 9)], &[(4, 9), (8, 3)], &[(16, 17), (4, 1), (2, 8)],
        &[(32, 1), (8, 7), (8, 8), (2, 9)], &[(16, 8), (8, 8), (4, 8), (2, 8), (1, 8)],
        &[(64, 2), (16, 3), (4, 1)], &[(128, 1), (32, 20)], &[(64, 1), (32, 2)], &[(64, 9), (16, 2)],
        &[(256, 1), (32, 3), (8, 2), (2, 20)], &[(16, 1), (16, 7), (16, 8), (16, 9), (16, 17)],
        &[(32, 8), (16, 16), (8, 24), (4, 25)], &[(5, 8), (3, 16)], &[(6, 2), (3, 3)], &[(7, 1), (3, 1)], &[(8, 1), (7, 1)],
    ];
    let cfgs = ["bb_p2", "kb_p2", "kb_p2", "kb_p1", "gl_p2", "kb_p2_d1", "bb_p2_d1"];
    let kinds = ["none", "none", "leaf", "sibling", "index_bit", "cap", "dims_height"];
    let mut out = Vec::with_capacity(n);
    while out.len() < n {
        let i = out.len();
        let cfg = cfgs[i % cfgs.len()];
        let arity = if (i / cfgs.len()) % 2 == 0 { 2 } else { 4 };
        let hiding = arity == 2 && rng.random_range(0..3usize) == 0;
        // half of the cases: a fixed pool of interesting shapes; the other half: random power-of-two heights
        let widths = [1usize, 2, 3, 4, 7, 8, 9, 15, 16, 17, 20];
        let random_dims: Vec<(usize, usize)> =
            (0..rng.random_range(1..6usize)).map(|_| (1usize << rng.random_range(0..8u32), widths[rng.random_range(0..widths.len())])).collect();
        let dims: &[(usize, usize)] = if rng.random_range(0..2usize) == 0 { pools[rng.random_range(0..pools.len())] } else { &random_dims };
        let max_h = dims.iter().map(|d| d.0).max().unwrap();
        let nbits = log2_ceil_usize(max_h);
        let cap_height = rng.random_range(0..3usize);
        let mut kind = kinds[rng.random_range(0..kinds.len())];
        if hiding && rng.random_range(0..8usize) == 0 {
            kind = "salt";
        }
        let mat = rng.random_range(0..dims.len());
        let word = rng.random_range(0..4usize);
        let plen = (arity - 1) * nbits.saturating_sub(cap_height).max(1) / if arity == 4 { 2 } else { 1 };
        let fault = match kind {
            "leaf" => Fault { kind: kind.into(), mat: Some(mat), col: Some(rng.random_range(0..dims[mat].1)), ..Default::default() },
            "sibling" => Fault { kind: kind.into(), level: Some(rng.random_range(0..plen.max(1))), word: Some(word), ..Default::default() },
            "index_bit" => Fault { kind: kind.into(), bit: Some(rng.random_range(0..nbits.max(1))), ..Default::default() },
            "cap" => Fault { kind: kind.into(), entry: Some(rng.random_range(0..1usize << cap_height.min(nbits))), word: Some(word), ..Default::default() },
            "dims_height" => Fault { kind: kind.into(), mat: Some(mat), ..Default::default() },
            "salt" => Fault { kind: kind.into(), mat: Some(mat), word: Some(word), ..Default::default() },
            _ => Fault { kind: "none".into(), ..Default::default() },
        };
        out.push(Case {
            spec: "Mmcs".into(),
            cfg: cfg.into(),
            arity,
            cap_height,
            hiding,
            ext: rng.random_range(0..3usize) == 0,
            dims: dims.iter().map(|&(h, w)| Dim { h, w }).collect(),
            index: rng.random_range(0..max_h),
            fault,
        });
    }
    out
}
