//! C06 on the permutation table of REAL challenger circuits: every input cell (and the index accumulator) of every
//! Poseidon2 row of an honest transcript circuit is changed (+1) while everything else is left as the honest run produced it;
//! the trace is proven with the honest prover data and judged by the real verifier.  A challenge is bound to the whole
//! transcript only if every one of these cells is bound (to the witness through the bus, or to the preceding row through
//! the chaining constraints): an accepted deviation is a cell the prover may choose.
//!
//! Two transcripts: the extension-degree challenger (KoalaBear D4, width 16, recompose table on) and the base-field
//! challenger in a quintic circuit (KoalaBear D1 rows, capacity chained inside the table).  Both: observe n, sample,
//! observe 5, sample, sample(s) - three permutations, the last one triggered by a sample on an exhausted output buffer;
//! n = 8 (the first permutation absorbs a full block) and n = 3 (partial block: zero padding in the rate part).
use std::panic::{AssertUnwindSafe, catch_unwind};

use p3_batch_stark::ProverData;
use p3_challenger::{CanObserve, CanSample, DuplexChallenger, FieldChallenger};
use p3_circuit::ops::{KoalaBearD1Width16, NpoTypeId, Poseidon2Config, Poseidon2Trace, generate_poseidon2_trace, generate_recompose_trace};
use p3_circuit::{Circuit, CircuitBuilder, Traces};
use p3_circuit_prover::batch_stark_prover::{poseidon2_air_builders, poseidon2_air_builders_d5, poseidon2_table_provers_d5, recompose_air_builders};
use p3_circuit_prover::common::{NpoPreprocessor, get_airs_and_degrees_with_prep};
use p3_circuit_prover::config::{self, KoalaBearConfig};
use p3_circuit_prover::{BatchStarkProver, CircuitProverData, ConstraintProfile, Poseidon2Preprocessor, RecomposePreprocessor, TablePacking};
use p3_field::extension::{BinomialExtensionField, QuinticTrinomialExtensionField};
use p3_field::{BasedVectorSpace, Field, PrimeCharacteristicRing};
use p3_koala_bear::{KoalaBear, default_koalabear_poseidon2_16};
use p3_poseidon2_circuit_air::KoalaBearD4Width16;
use p3_recursion::challenger::CircuitChallenger;
use p3_recursion::traits::RecursiveChallenger;
use serde_json::{Value, json};

type KB = KoalaBear;
type E4 = BinomialExtensionField<KB, 4>;
type E5 = QuinticTrinomialExtensionField<KB>;

fn block(n: usize, off: u64) -> Vec<KB> {
    (0..n).map(|i| KB::from_u64(off + i as u64)).collect()
}

macro_rules! judge {
    ($prover:expr, $cpd:expr, $ef:ty) => {
        |t: &Traces<$ef>| -> &'static str {
            let r = catch_unwind(AssertUnwindSafe(|| match $prover.prove_all_tables(t, &$cpd) {
                Ok(p) => match $prover.verify_all_tables::<$ef>(&p) {
                    Ok(()) => "accepted",
                    Err(_) => "rejected",
                },
                Err(_) => "prove-failed",
            }));
            r.unwrap_or("panic")
        }
    };
}

/// The base permutation lifted to the quintic circuit field (the runner's executor works on circuit-field elements).
#[derive(Clone)]
struct LiftedPerm(p3_koala_bear::Poseidon2KoalaBear<16>);
impl p3_symmetric::Permutation<[E5; 16]> for LiftedPerm {
    fn permute(&self, input: [E5; 16]) -> [E5; 16] {
        let bases: [KB; 16] = core::array::from_fn(|i| <E5 as BasedVectorSpace<KB>>::as_basis_coefficients_slice(&input[i])[0]);
        let out = self.0.permute(bases);
        core::array::from_fn(|i| E5::new([out[i], KB::ZERO, KB::ZERO, KB::ZERO, KB::ZERO]))
    }
}

/// One swept transcript: the class of every cell whose deviation the verifier ACCEPTED, with counts per class.
pub struct Swept {
    pub name: &'static str,
    pub honest: &'static str,
    pub rows: usize,
    pub cells: usize,
    pub rejected: usize,
    /// (class, count, example)
    pub accepted: Vec<(String, usize, Value)>,
    /// classes seen at all (rejected or accepted), for the evidence
    pub classes: Vec<String>,
}

fn sweep_table<EF: Field>(name: &'static str, d: usize, id: NpoTypeId, verdict: &dyn Fn(&Traces<EF>) -> &'static str, honest: &Traces<EF>) -> Result<Swept, String> {
    let hv = verdict(honest);
    let tr0 = honest.non_primitive_trace::<Poseidon2Trace<KB>>(&id).cloned().ok_or("no Poseidon2 trace")?;
    let mut sw = Swept { name, honest: hv, rows: tr0.operations.len(), cells: 0, rejected: 0, accepted: Vec::new(), classes: Vec::new() };
    if hv != "accepted" {
        return Ok(sw);
    }
    for (r, row) in tr0.operations.iter().enumerate() {
        let ncell = row.input_values.len();
        let rowkind = if row.merkle_path { "merkle-row" } else if row.new_start { "new-start-row" } else { "chained-row" };
        for j in 0..=ncell {
            let mut tr = tr0.clone();
            let class = if j == ncell {
                tr.operations[r].mmcs_index_sum += KB::ONE;
                format!("{rowkind}-index-accumulator")
            } else {
                tr.operations[r].input_values[j] += KB::ONE;
                let limb = j / d;
                let half = if j < ncell / 2 { "rate" } else { "capacity" };
                format!("{rowkind}-{half}-{}", if row.in_ctl.get(limb).copied().unwrap_or(false) { "exposed-input" } else { "unexposed-input" })
            };
            if !sw.classes.contains(&class) {
                sw.classes.push(class.clone());
            }
            let mut t = honest.clone();
            t.non_primitive_traces.insert(id.clone(), Box::new(tr));
            sw.cells += 1;
            if verdict(&t) == "accepted" {
                // an index accumulator nobody reads: exposure disabled, no Merkle row
                if j == ncell && !row.mmcs_ctl_enabled && !row.merkle_path {
                    continue;
                }
                let ex = json!({"row": r, "cell": j, "new_start": row.new_start, "in_ctl": row.in_ctl, "out_ctl": row.out_ctl, "rows": tr0.operations.len()});
                match sw.accepted.iter_mut().find(|a| a.0 == class) {
                    Some(a) => a.1 += 1,
                    None => sw.accepted.push((class, 1, ex)),
                }
            } else {
                sw.rejected += 1;
            }
        }
    }
    Ok(sw)
}

/// KoalaBear D4 extension challenger, recompose table on.
pub fn sweep_ext(first: usize, name: &'static str) -> Result<Swept, String> {
    ext_inner(first, name, false).map(|r| r.0.expect("swept"))
}
/// C18: digest line of everything a prover and a verifier derive independently from the program (no proving).
pub fn digest_ext(first: usize, name: &'static str) -> Result<String, String> {
    ext_inner(first, name, true).map(|r| r.1)
}
fn ext_inner(first: usize, name: &'static str, digest_only: bool) -> Result<(Option<Swept>, String), String> {
    let mut b = CircuitBuilder::<E4>::new();
    b.enable_poseidon2_perm::<KoalaBearD4Width16, _>(generate_poseidon2_trace::<E4, KoalaBearD4Width16>, default_koalabear_poseidon2_16());
    b.enable_recompose::<KB>(generate_recompose_trace::<KB, E4>);
    let mut cc = CircuitChallenger::<16, 8, Poseidon2Config>::new_koalabear();
    let mut native = DuplexChallenger::<KB, _, 16, 8>::new(default_koalabear_poseidon2_16());
    let mut samples_t = Vec::new();
    let mut samples_v: Vec<E4> = Vec::new();
    for v in block(first, 1) {
        let t = b.define_const(E4::from(v));
        RecursiveChallenger::<KB, E4>::observe(&mut cc, &mut b, t);
        native.observe(v);
    }
    samples_t.push(RecursiveChallenger::<KB, E4>::sample_ext(&mut cc, &mut b));
    samples_v.push(native.sample_algebra_element());
    for v in block(5, 100) {
        let t = b.define_const(E4::from(v));
        RecursiveChallenger::<KB, E4>::observe(&mut cc, &mut b, t);
        native.observe(v);
    }
    for _ in 0..3 {
        samples_t.push(RecursiveChallenger::<KB, E4>::sample_ext(&mut cc, &mut b));
        samples_v.push(native.sample_algebra_element());
    }
    for t in &samples_t {
        let p = b.public_input();
        b.connect(*t, p);
    }
    let circuit: Circuit<E4> = b.build().map_err(|e| format!("build: {e:?}"))?;
    let packing = TablePacking::new(1, 1);
    let npo_prep: Vec<Box<dyn NpoPreprocessor<KB>>> = vec![Box::new(Poseidon2Preprocessor), Box::new(RecomposePreprocessor::default())];
    let mut air_builders = poseidon2_air_builders::<_, 4>();
    air_builders.extend(recompose_air_builders(1, false));
    let (ad, pc, npc) = get_airs_and_degrees_with_prep::<KoalaBearConfig, _, 4>(&circuit, &packing, &npo_prep, &air_builders, ConstraintProfile::Standard).map_err(|e| format!("{e:?}"))?;
    let (airs, degs): (Vec<_>, Vec<usize>) = ad.into_iter().unzip();
    let pd = ProverData::from_airs_and_degrees(&config::koala_bear(), &airs, &degs);
    let line = crate::npodigest::line(name, &circuit, &pc, &npc, &airs, &degs, &pd);
    if digest_only {
        return Ok((None, line));
    }
    let mut prover = BatchStarkProver::new(config::koala_bear()).with_table_packing(packing);
    prover.register_poseidon2_table::<4>(Poseidon2Config::KOALA_BEAR_D4_W16);
    prover.register_recompose_table::<4>(false);
    let cpd = CircuitProverData::new(pd, pc, npc);
    let mut runner = circuit.runner();
    runner.set_public_inputs(&samples_v).map_err(|e| format!("public inputs: {e:?}"))?;
    let honest = runner.run().map_err(|e| format!("run: {e:?}"))?;
    let j = judge!(prover, cpd, E4);
    sweep_table::<E4>(name, 4, NpoTypeId::poseidon2_perm(Poseidon2Config::KOALA_BEAR_D4_W16), &j, &honest).map(|s| (Some(s), line))
}

/// KoalaBear base-field challenger rows (D1) in a quintic circuit.
pub fn sweep_base(first: usize, name: &'static str) -> Result<Swept, String> {
    base_inner(first, name, false).map(|r| r.0.expect("swept"))
}
pub fn digest_base(first: usize, name: &'static str) -> Result<String, String> {
    base_inner(first, name, true).map(|r| r.1)
}
fn base_inner(first: usize, name: &'static str, digest_only: bool) -> Result<(Option<Swept>, String), String> {
    let lift = |v: KB| E5::new([v, KB::ZERO, KB::ZERO, KB::ZERO, KB::ZERO]);
    let mut b = CircuitBuilder::<E5>::new();
    b.enable_poseidon2_perm_base::<KoalaBearD1Width16, _>(generate_poseidon2_trace::<E5, KoalaBearD1Width16>, LiftedPerm(default_koalabear_poseidon2_16()));
    let mut cc: CircuitChallenger<16, 8, Poseidon2Config> = CircuitChallenger::new_koalabear_base();
    let mut native = DuplexChallenger::<KB, _, 16, 8>::new(default_koalabear_poseidon2_16());
    let mut samples_t = Vec::new();
    let mut samples_v: Vec<E5> = Vec::new();
    for v in block(first, 1) {
        let t = b.define_const(lift(v));
        RecursiveChallenger::<KB, E5>::observe(&mut cc, &mut b, t);
        native.observe(v);
    }
    samples_t.push(RecursiveChallenger::<KB, E5>::sample(&mut cc, &mut b));
    samples_v.push(lift(native.sample()));
    for v in block(5, 100) {
        let t = b.define_const(lift(v));
        RecursiveChallenger::<KB, E5>::observe(&mut cc, &mut b, t);
        native.observe(v);
    }
    for _ in 0..9 {
        samples_t.push(RecursiveChallenger::<KB, E5>::sample(&mut cc, &mut b));
        samples_v.push(lift(native.sample()));
    }
    for t in &samples_t {
        let p = b.public_input();
        let dlt = b.sub(*t, p);
        b.assert_zero(dlt);
    }
    let circuit: Circuit<E5> = b.build().map_err(|e| format!("build: {e:?}"))?;
    let cfg = config::koala_bear();
    let npo_prep: Vec<Box<dyn NpoPreprocessor<KB>>> = vec![Box::new(Poseidon2Preprocessor)];
    let air_builders = poseidon2_air_builders_d5::<KoalaBearConfig>();
    let (ad, pc, npc) = get_airs_and_degrees_with_prep::<KoalaBearConfig, _, 5>(&circuit, &TablePacking::default(), &npo_prep, &air_builders, ConstraintProfile::Standard).map_err(|e| format!("airs: {e:?}"))?;
    let (airs, degs): (Vec<_>, Vec<usize>) = ad.into_iter().unzip();
    let pd = ProverData::from_airs_and_degrees(&cfg, &airs, &degs);
    let line = crate::npodigest::line(name, &circuit, &pc, &npc, &airs, &degs, &pd);
    if digest_only {
        return Ok((None, line));
    }
    let cpd = CircuitProverData::new(pd, pc, npc);
    let mut prover = BatchStarkProver::new(cfg);
    for p in poseidon2_table_provers_d5(Poseidon2Config::KOALA_BEAR_D1_W16) {
        prover.register_table_prover(p);
    }
    let mut runner = circuit.runner();
    runner.set_public_inputs(&samples_v).map_err(|e| format!("public inputs: {e:?}"))?;
    let honest = runner.run().map_err(|e| format!("run: {e:?}"))?;
    let j = judge!(prover, cpd, E5);
    sweep_table::<E5>(name, 1, NpoTypeId::poseidon2_perm(Poseidon2Config::KOALA_BEAR_D1_W16), &j, &honest).map(|s| (Some(s), line))
}
