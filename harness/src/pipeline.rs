//! Replay of `Pipeline.tla` behaviours into the real builder / compiler / runner / prover.
//!
//! One TLC behaviour = one builder program.  The program is rebuilt through the public
//! `CircuitBuilder` API, and the real artefacts (`Circuit::ops`, `expr_to_widx`, runner outcome,
//! witness values, preprocessed columns, proof verdict) are judged against the mathematical
//! meaning of the program (`oracle::eval_program`), never against the model's prediction of
//! internal structure (that comparison is reported as `model_drift` only).
use std::panic::{AssertUnwindSafe, catch_unwind};

use hashbrown::HashMap;
use p3_baby_bear::BabyBear;
use p3_batch_stark::ProverData;
use p3_circuit::builder::CircuitBuilder;
use p3_circuit::{AluOpKind, Circuit, ExprId, Op, Traces, WitnessId};
use p3_circuit_prover::batch_stark_prover::{BatchStarkProver, CircuitProverData, TablePacking};
use p3_circuit_prover::common::get_airs_and_degrees_with_prep;
use p3_circuit_prover::config::{self, BabyBearConfig};
use p3_circuit_prover::ConstraintProfile;
use p3_field::{Field, PrimeCharacteristicRing, PrimeField64};
use rand::rngs::StdRng;
use rand::{RngExt, SeedableRng};
use serde::{Deserialize, Serialize};
use serde_json::{Value, json};

use crate::linalg;
use crate::oracle::{Call, Eval, Fld, Gf, P3, PreNode, Program, eval_program};

pub type F = BabyBear;

/// One line of TLC output (`ReplayRecord` of MC_Pipeline.tla).
#[derive(Clone, Debug, Serialize, Deserialize)]
pub struct Rec {
    pub p: u64,
    pub npub: usize,
    pub npriv: usize,
    pub prelude: Vec<PreNode>,
    pub calls: Vec<Call>,
    #[serde(default)]
    pub ids: Vec<i64>,
    #[serde(default)]
    pub nnodes: usize,
    /// kind of every node of the model's expression graph
    #[serde(default)]
    pub gk: Vec<String>,
    #[serde(default)]
    pub ops: Vec<MOp>,
    #[serde(default)]
    pub w: Vec<i64>,
    #[serde(default)]
    pub nslots: usize,
    #[serde(default)]
    pub den0: Vec<i64>,
    #[serde(default)]
    pub m02: Option<bool>,
    #[serde(default)]
    pub m03: Option<bool>,
    #[serde(default)]
    pub m09: Option<bool>,
    #[serde(default)]
    pub m19: Option<bool>,
}

#[derive(Clone, Debug, Serialize, Deserialize, PartialEq)]
pub struct MOp {
    pub k: String,
    pub a: i64,
    pub b: i64,
    pub c: i64,
    pub out: i64,
    pub io: i64,
    pub v: i64,
}

impl Rec {
    pub fn program(&self) -> Program {
        Program { npub: self.npub, npriv: self.npriv, prelude: self.prelude.clone(), calls: self.calls.clone() }
    }
}

pub struct Built {
    pub circuit: Circuit<F>,
    /// ExprId of every handle (prelude first, then one per value-producing call)
    pub hid: Vec<ExprId>,
}

/// Rebuild the program through the public builder API.
pub fn build(prog: &Program) -> Result<Built, String> {
    let r = catch_unwind(AssertUnwindSafe(|| {
        let mut b = CircuitBuilder::<F>::new();
        let mut hid: Vec<ExprId> = Vec::new();
        for n in &prog.prelude {
            let id = match n.k.as_str() {
                "const" => b.define_const(F::from_u64(n.v)),
                "pub" => b.public_input(),
                "priv" => b.alloc_private_input("priv"),
                o => return Err(format!("prelude {o}")),
            };
            hid.push(id);
        }
        for c in &prog.calls {
            let h = |i: usize| hid[c.args[i]];
            match c.op.as_str() {
                "add" => {
                    let r = b.add(h(0), h(1));
                    hid.push(r)
                }
                "sub" => {
                    let r = b.sub(h(0), h(1));
                    hid.push(r)
                }
                "mul" => {
                    let r = b.mul(h(0), h(1));
                    hid.push(r)
                }
                "div" => {
                    let r = b.div(h(0), h(1));
                    hid.push(r)
                }
                "muladd" => {
                    let r = b.mul_add(h(0), h(1), h(2));
                    hid.push(r)
                }
                "horner" => {
                    let r = b.horner_acc_step(h(0), h(1), h(2), h(3));
                    hid.push(r)
                }
                "select" => {
                    let r = b.select(h(0), h(1), h(2));
                    hid.push(r)
                }
                "bits2" => {
                    let bits = b.decompose_to_bits::<BabyBear>(h(0), 2).map_err(|e| format!("decompose_to_bits: {e:?}"))?;
                    hid.extend(bits);
                }
                "connect" => b.connect(h(0), h(1)),
                "azero" => b.assert_zero(h(0)),
                "abool" => b.assert_bool(h(0)),
                o => return Err(format!("call {o}")),
            }
        }
        let circuit = b.build().map_err(|e| format!("build error: {e:?}"))?;
        Ok(Built { circuit, hid })
    }));
    match r {
        Ok(x) => x,
        Err(_) => Err("panic in builder".into()),
    }
}

pub struct RunOut {
    pub err: Option<String>,
    pub traces: Option<Traces<F>>,
}
impl RunOut {
    pub fn ok(&self) -> bool {
        self.err.is_none()
    }
}

pub fn run(circuit: &Circuit<F>, pubs: &[F], privs: &[F]) -> RunOut {
    let r = catch_unwind(AssertUnwindSafe(|| {
        let mut runner = circuit.runner();
        runner.set_public_inputs(pubs).map_err(|e| format!("set_public_inputs: {e:?}"))?;
        if circuit.private_flat_len > 0 || !privs.is_empty() {
            runner.set_private_inputs(privs).map_err(|e| format!("set_private_inputs: {e:?}"))?;
        }
        runner.run().map_err(|e| format!("run: {e:?}"))
    }));
    match r {
        Ok(Ok(t)) => RunOut { err: None, traces: Some(t) },
        Ok(Err(e)) => RunOut { err: Some(e), traces: None },
        Err(_) => RunOut { err: Some("PANIC in runner".into()), traces: None },
    }
}

fn fv(x: &[P3<F>]) -> Vec<F> {
    x.iter().map(|v| v.0).collect()
}
pub fn fu(x: F) -> u64 {
    x.as_canonical_u64()
}

pub fn rand_f(rng: &mut StdRng) -> P3<F> {
    P3(F::from_u64(rng.random::<u64>() % (F::ORDER_U64)))
}

fn residuals(prog: &Program, x: &[P3<F>]) -> Option<Vec<P3<F>>> {
    let ev = eval_program(prog, &x[..prog.npub], &x[prog.npub..]);
    if !ev.all_defined() {
        return None;
    }
    Some(ev.equalities.iter().chain(ev.bools.iter()).map(|r| r.unwrap()).collect())
}

/// Division-free form of the program's assertions: the unknowns are the inputs followed by one
/// unknown per `div` call (its quotient); the residuals are `q*divisor - dividend` per div, one
/// per asserted equality, and `v - bit` per asserted bool (bits chosen by the caller).  Every
/// residual is a polynomial, affine in each unknown separately unless the program squares it.
fn ext_residuals(prog: &Program, u: &[P3<F>], bits: &[P3<F>]) -> Vec<P3<F>> {
    let n = prog.npub + prog.npriv;
    let mut h: Vec<P3<F>> = Vec::new();
    for node in &prog.prelude {
        h.push(match node.k.as_str() {
            "const" => P3::from_small(node.v),
            "pub" => u[node.v as usize - 1],
            _ => u[prog.npub + node.v as usize - 1],
        });
    }
    let mut res = Vec::new();
    let mut tail = Vec::new();
    let (mut qi, mut bi) = (n, 0usize);
    for c in &prog.calls {
        let a = |k: usize| h[c.args[k]];
        match c.op.as_str() {
            "add" => h.push(a(0).add(a(1))),
            "sub" => h.push(a(0).sub(a(1))),
            "mul" => h.push(a(0).mul(a(1))),
            "div" => {
                let q = u[qi];
                qi += 1;
                res.push(q.mul(a(1)).sub(a(0)));
                h.push(q);
            }
            "muladd" => h.push(a(0).mul(a(1)).add(a(2))),
            "horner" => h.push(a(0).mul(a(1)).add(a(2)).sub(a(3))),
            "select" => h.push(a(2).add(a(0).mul(a(1).sub(a(2))))),
            "connect" => tail.push(a(0).sub(a(1))),
            "azero" => tail.push(a(0)),
            "abool" => {
                tail.push(a(0).sub(bits[bi]));
                bi += 1;
            }
            "bits2" => {
                // the two bits are unknowns aimed at chosen bit values; x must equal b0 + 2*b1
                let (b0, b1) = (u[qi], u[qi + 1]);
                qi += 2;
                tail.push(b0.sub(bits[bi]));
                tail.push(b1.sub(bits[bi + 1]));
                bi += 2;
                tail.push(a(0).sub(b0.add(b1.add(b1))));
                h.push(b0);
                h.push(b1);
            }
            _ => {}
        }
    }
    res.extend(tail);
    res
}

/// Find an input on which every asserted relation holds and every divisor is non-zero.
/// Newton iteration on the division-free system from a random start: exact in finitely many
/// steps whenever the system is triangular-affine in some subset of the unknowns (which is the
/// case for every relation the builder can assert except those that square an unknown).
/// `generic = false` additionally tries the points of {0,1,2}^n.
pub fn find_satisfying(prog: &Program, rng: &mut StdRng, generic: bool) -> Option<Vec<P3<F>>> {
    let n = prog.npub + prog.npriv;
    let zero = P3::<F>::zero();
    let nbits = prog.calls.iter().filter(|c| c.op == "bits2").count();
    let ndiv = prog.calls.iter().filter(|c| c.op == "div").count() + 2 * nbits;
    let nb = prog.calls.iter().filter(|c| c.op == "abool").count() + 2 * nbits;
    let nu = n + ndiv;
    let verified = |x: &[P3<F>]| residuals(prog, x).is_some_and(|r| r.iter().all(|v| *v == zero));
    for attempt in 0..8 {
        let mut u: Vec<P3<F>> = (0..nu).map(|_| rand_f(rng)).collect();
        let bits: Vec<P3<F>> = (0..nb).map(|_| if rng.random::<bool>() { P3::one() } else { zero }).collect();
        // column order: which unknowns get solved first (pivots) when the system is under-determined
        let mut order: Vec<usize> = (0..nu).collect();
        if attempt > 0 {
            for i in (1..nu).rev() {
                order.swap(i, rng.random_range(0..=i));
            }
        } else {
            order.reverse(); // quotients first, then the later inputs
        }
        for _round in 0..6 {
            let r0 = ext_residuals(prog, &u, &bits);
            if r0.iter().all(|v| *v == zero) {
                break;
            }
            let cols: Vec<Vec<P3<F>>> = order
                .iter()
                .map(|&j| {
                    let mut y = u.clone();
                    y[j] = y[j].add(P3::one());
                    ext_residuals(prog, &y, &bits).iter().zip(&r0).map(|(a, b)| a.sub(*b)).collect()
                })
                .collect();
            let a: Vec<Vec<P3<F>>> = (0..r0.len()).map(|i| (0..nu).map(|k| cols[k][i]).collect()).collect();
            let b: Vec<P3<F>> = r0.iter().map(|t| zero.sub(*t)).collect();
            let Some(d) = linalg::solve(&a, &b, nu) else { break };
            for (k, &j) in order.iter().enumerate() {
                u[j] = u[j].add(d[k]);
            }
        }
        if ext_residuals(prog, &u, &bits).iter().all(|v| *v == zero) && verified(&u[..n]) {
            return Some(u[..n].to_vec());
        }
    }
    if !generic && n <= 5 {
        // small points: many non-affine systems have solutions in {0,1,2}^n
        let total = 3usize.pow(n as u32);
        for code in 0..total {
            let mut c = code;
            let x: Vec<P3<F>> = (0..n)
                .map(|_| {
                    let d = c % 3;
                    c /= 3;
                    P3::from_small(d as u64)
                })
                .collect();
            if verified(&x) {
                return Some(x);
            }
        }
    }
    None
}

#[derive(Clone, Debug, Serialize)]
pub struct Finding {
    pub property: String,
    /// what failed, in terms of the property (e.g. "value-mismatch", "run-fails-on-satisfying-input")
    pub kind: String,
    /// `kind@shape+shape..`: kind of failure and the shapes of the failing program / circuit;
    /// a known finding is (property, kind, one shape) in KNOWN_FINDINGS.json
    pub signature: String,
    pub detail: Value,
}

fn widx(c: &Circuit<F>, e: ExprId) -> Option<usize> {
    c.expr_to_widx.get(&e).map(|w| w.0 as usize)
}

/// Relation of one emitted op evaluated on a full slot assignment; `None` for ops without relation.
fn op_relation_holds(op: &Op<F>, s: &[F], pubs: &[F], dead: &dyn Fn(usize) -> bool) -> Option<bool> {
    match op {
        Op::Const { out, val } => Some(s[out.0 as usize] == *val),
        Op::Public { out, public_pos } => Some(s[out.0 as usize] == pubs[*public_pos]),
        Op::Alu { kind, a, b, c, out, intermediate_out } => {
            let (av, bv, ov) = (s[a.0 as usize], s[b.0 as usize], s[out.0 as usize]);
            let cv = c.map(|c| s[c.0 as usize]).unwrap_or(F::ZERO);
            Some(match kind {
                AluOpKind::Add => av + bv == ov,
                AluOpKind::Mul => av * bv == ov,
                AluOpKind::BoolCheck => av * (av - F::ONE) == F::ZERO && ov == av,
                AluOpKind::MulAdd => {
                    let ghost = match intermediate_out {
                        Some(io) if dead(io.0 as usize) => s[io.0 as usize] == av * bv,
                        _ => true,
                    };
                    av * bv + cv == ov && ghost
                }
                AluOpKind::HornerAcc => {
                    let acc = s[intermediate_out.expect("horner acc").0 as usize];
                    acc * bv + cv - av == ov
                }
            })
        }
        _ => None,
    }
}

/// Slots that no op reads or writes as a bus operand and that are no input row: the result
/// slot of a fused multiplication.  The MulAdd op is taken to define such a slot (a*b).
fn dead_slots(c: &Circuit<F>) -> Vec<bool> {
    let n = c.witness_count as usize;
    let mut live = vec![false; n];
    for op in &c.ops {
        match op {
            Op::Const { out, .. } | Op::Public { out, .. } => live[out.0 as usize] = true,
            Op::Alu { kind, a, b, c, out, intermediate_out } => {
                live[a.0 as usize] = true;
                live[b.0 as usize] = true;
                live[out.0 as usize] = true;
                if let Some(c) = c {
                    live[c.0 as usize] = true;
                }
                if *kind == AluOpKind::HornerAcc {
                    if let Some(io) = intermediate_out {
                        live[io.0 as usize] = true;
                    }
                }
            }
            Op::Hint { inputs, outputs, .. } => {
                for w in inputs.iter().chain(outputs.iter()) {
                    live[w.0 as usize] = true;
                }
            }
            Op::NonPrimitiveOpWithExecutor { inputs, outputs, .. } => {
                for w in inputs.iter().flatten().chain(outputs.iter().flatten()) {
                    live[w.0 as usize] = true;
                }
            }
        }
    }
    for w in c.public_rows.iter().chain(c.private_input_rows.iter()) {
        live[w.0 as usize] = true;
    }
    live.iter().map(|l| !l).collect()
}

/// Source relations of the program as (description, residual over (slots, pubs), gradient).
struct SrcRel {
    what: String,
    residual: F,
    grad: Vec<(usize, F)>, // variable index -> coefficient
}

fn source_relations(prog: &Program, built: &Built, s: &[F], pubs: &[F]) -> Result<Vec<SrcRel>, String> {
    let c = &built.circuit;
    let n = c.witness_count as usize;
    let w = |h: usize| -> Result<usize, String> {
        widx(c, built.hid[h]).ok_or_else(|| format!("handle {h} ({:?}) has no witness mapping", built.hid[h]))
    };
    let mut out = Vec::new();
    let mut nh = 0usize;
    for (i, node) in prog.prelude.iter().enumerate() {
        let wi = w(i)?;
        match node.k.as_str() {
            "const" => out.push(SrcRel {
                what: format!("const handle {i} = {}", node.v),
                residual: s[wi] - F::from_u64(node.v),
                grad: vec![(wi, F::ONE)],
            }),
            "pub" => {
                let p = node.v as usize - 1;
                out.push(SrcRel {
                    what: format!("public input {p} is handle {i}"),
                    residual: s[wi] - pubs[p],
                    grad: vec![(wi, F::ONE), (n + p, -F::ONE)],
                })
            }
            _ => {}
        }
        nh += 1;
    }
    for (ci, call) in prog.calls.iter().enumerate() {
        let a = |k: usize| w(call.args[k]);
        let v = |k: usize| -> Result<F, String> { Ok(s[a(k)?]) };
        let what = format!("call {ci}: {}{:?}", call.op, call.args);
        match call.op.as_str() {
            "add" | "sub" | "mul" | "div" | "muladd" | "horner" | "select" => {
                let r = w(nh)?;
                nh += 1;
                let (res, grad) = match call.op.as_str() {
                    "add" => (s[r] - v(0)? - v(1)?, vec![(r, F::ONE), (a(0)?, -F::ONE), (a(1)?, -F::ONE)]),
                    "sub" => (s[r] - v(0)? + v(1)?, vec![(r, F::ONE), (a(0)?, -F::ONE), (a(1)?, F::ONE)]),
                    "mul" => (s[r] - v(0)? * v(1)?, vec![(r, F::ONE), (a(0)?, -v(1)?), (a(1)?, -v(0)?)]),
                    // ret * divisor = dividend
                    "div" => (s[r] * v(1)? - v(0)?, vec![(r, v(1)?), (a(1)?, s[r]), (a(0)?, -F::ONE)]),
                    "muladd" => (
                        s[r] - v(0)? * v(1)? - v(2)?,
                        vec![(r, F::ONE), (a(0)?, -v(1)?), (a(1)?, -v(0)?), (a(2)?, -F::ONE)],
                    ),
                    "horner" => (
                        s[r] - v(0)? * v(1)? - v(2)? + v(3)?,
                        vec![(r, F::ONE), (a(0)?, -v(1)?), (a(1)?, -v(0)?), (a(2)?, -F::ONE), (a(3)?, F::ONE)],
                    ),
                    // ret = s + b*(t - s)
                    "select" => (
                        s[r] - v(2)? - v(0)? * (v(1)? - v(2)?),
                        vec![(r, F::ONE), (a(2)?, -F::ONE + v(0)?), (a(0)?, -(v(1)? - v(2)?)), (a(1)?, -v(0)?)],
                    ),
                    _ => unreachable!(),
                };
                out.push(SrcRel { what, residual: res, grad });
            }
            "bits2" => {
                let (b0, b1) = (w(nh)?, w(nh + 1)?);
                nh += 2;
                for (b, name) in [(b0, "bit 0"), (b1, "bit 1")] {
                    out.push(SrcRel { what: format!("{what}: {name} boolean"), residual: s[b] * (s[b] - F::ONE), grad: vec![(b, s[b].double() - F::ONE)] });
                }
                out.push(SrcRel { what: format!("{what}: x = b0 + 2 b1"), residual: v(0)? - s[b0] - s[b1].double(),
                    grad: vec![(a(0)?, F::ONE), (b0, -F::ONE), (b1, -F::TWO)] });
            }
            "connect" => out.push(SrcRel { what, residual: v(0)? - v(1)?, grad: vec![(a(0)?, F::ONE), (a(1)?, -F::ONE)] }),
            "azero" => out.push(SrcRel { what, residual: v(0)?, grad: vec![(a(0)?, F::ONE)] }),
            "abool" => out.push(SrcRel {
                what,
                residual: v(0)? * (v(0)? - F::ONE),
                grad: vec![(a(0)?, v(0)?.double() - F::ONE)],
            }),
            o => return Err(format!("unknown call {o}")),
        }
    }
    Ok(out)
}

fn dense(grad: &[(usize, F)], nvars: usize) -> Vec<P3<F>> {
    let mut v = vec![P3(F::ZERO); nvars];
    for (i, c) in grad {
        v[*i] = P3(v[*i].0 + *c);
    }
    v
}

/// Gradient rows of the op relations at assignment `s`.
fn op_gradients(c: &Circuit<F>, s: &[F], dead: &[bool]) -> Vec<Vec<(usize, F)>> {
    let n = c.witness_count as usize;
    let mut rows = Vec::new();
    for op in &c.ops {
        match op {
            Op::Const { out, .. } => rows.push(vec![(out.0 as usize, F::ONE)]),
            Op::Public { out, public_pos } => rows.push(vec![(out.0 as usize, F::ONE), (n + *public_pos, -F::ONE)]),
            Op::Alu { kind, a, b, c: cc, out, intermediate_out } => {
                let (ai, bi, oi) = (a.0 as usize, b.0 as usize, out.0 as usize);
                let (av, bv) = (s[ai], s[bi]);
                match kind {
                    AluOpKind::Add => rows.push(vec![(ai, F::ONE), (bi, F::ONE), (oi, -F::ONE)]),
                    AluOpKind::Mul => rows.push(vec![(ai, bv), (bi, av), (oi, -F::ONE)]),
                    AluOpKind::BoolCheck => {
                        rows.push(vec![(ai, av.double() - F::ONE)]);
                        rows.push(vec![(ai, F::ONE), (oi, -F::ONE)]);
                    }
                    AluOpKind::MulAdd => {
                        let ci = cc.expect("muladd c").0 as usize;
                        rows.push(vec![(ai, bv), (bi, av), (ci, F::ONE), (oi, -F::ONE)]);
                        if let Some(io) = intermediate_out {
                            if dead[io.0 as usize] {
                                rows.push(vec![(ai, bv), (bi, av), (io.0 as usize, -F::ONE)]);
                            }
                        }
                    }
                    AluOpKind::HornerAcc => {
                        let ci = cc.expect("horner c").0 as usize;
                        let acc = intermediate_out.expect("horner acc").0 as usize;
                        rows.push(vec![(acc, bv), (bi, s[acc]), (ci, F::ONE), (ai, -F::ONE), (oi, -F::ONE)]);
                    }
                }
            }
            _ => {}
        }
    }
    rows
}

/// Residuals of one op's relation on a full assignment (variables: slots then public values).
fn op_residuals(op: &Op<F>, v: &dyn Fn(usize) -> F, n: usize, dead: &[bool]) -> Vec<F> {
    match op {
        Op::Const { out, val } => vec![v(out.0 as usize) - *val],
        Op::Public { out, public_pos } => vec![v(out.0 as usize) - v(n + *public_pos)],
        Op::Alu { kind, a, b, c, out, intermediate_out } => {
            let (av, bv, ov) = (v(a.0 as usize), v(b.0 as usize), v(out.0 as usize));
            let cv = c.map(|c| v(c.0 as usize)).unwrap_or(F::ZERO);
            match kind {
                AluOpKind::Add => vec![av + bv - ov],
                AluOpKind::Mul => vec![av * bv - ov],
                AluOpKind::BoolCheck => vec![av * (av - F::ONE), ov - av],
                AluOpKind::MulAdd => {
                    let mut r = vec![av * bv + cv - ov];
                    if let Some(io) = intermediate_out {
                        if dead[io.0 as usize] {
                            r.push(v(io.0 as usize) - av * bv);
                        }
                    }
                    r
                }
                AluOpKind::HornerAcc => {
                    let acc = v(intermediate_out.expect("horner acc").0 as usize);
                    vec![acc * bv + cv - av - ov]
                }
            }
        }
        _ => vec![],
    }
}

fn op_vars(op: &Op<F>, n: usize, dead: &[bool]) -> Vec<usize> {
    let mut v = Vec::new();
    match op {
        Op::Const { out, .. } => v.push(out.0 as usize),
        Op::Public { out, public_pos } => {
            v.push(out.0 as usize);
            v.push(n + *public_pos)
        }
        Op::Alu { kind, a, b, c, out, intermediate_out } => {
            v.extend([a.0 as usize, b.0 as usize, out.0 as usize]);
            if matches!(kind, AluOpKind::MulAdd | AluOpKind::HornerAcc) {
                if let Some(c) = c {
                    v.push(c.0 as usize);
                }
            }
            if let Some(io) = intermediate_out {
                if *kind == AluOpKind::HornerAcc || (*kind == AluOpKind::MulAdd && dead[io.0 as usize]) {
                    v.push(io.0 as usize);
                }
            }
        }
        _ => {}
    }
    v.sort();
    v.dedup();
    v
}

/// Solve the op list as a system of equations: every op with exactly one unknown variable
/// determines it, in whatever position(s) it occurs, provided the relation is affine in it;
/// iterate to a fixpoint.  Variables are the slots followed by the public values; `None` =
/// unknown.  Returns false if an op whose variables are all known is violated.
fn propagate_ops(c: &Circuit<F>, s: &mut [Option<F>], pubs: &mut [Option<F>], dead: &[bool]) -> bool {
    let n = s.len();
    loop {
        let mut progress = false;
        for op in &c.ops {
            let vars = op_vars(op, n, dead);
            let get = |s: &[Option<F>], pubs: &[Option<F>], i: usize| if i < n { s[i] } else { pubs[i - n] };
            let unknown: Vec<usize> = vars.iter().copied().filter(|&i| get(s, pubs, i).is_none()).collect();
            if unknown.len() > 1 {
                continue;
            }
            let eval_at = |t: Option<(usize, F)>| -> Vec<F> {
                let f = |i: usize| -> F {
                    if let Some((u, val)) = t {
                        if i == u {
                            return val;
                        }
                    }
                    get(s, pubs, i).unwrap_or(F::ZERO)
                };
                op_residuals(op, &f, n, dead)
            };
            if unknown.is_empty() {
                if eval_at(None).iter().any(|r| *r != F::ZERO) {
                    return false;
                }
                continue;
            }
            let u = unknown[0];
            let (r0, r1, r2) = (eval_at(Some((u, F::ZERO))), eval_at(Some((u, F::ONE))), eval_at(Some((u, F::TWO))));
            // find a residual that is affine in u with non-zero slope; the others are checked after
            let mut sol = None;
            for k in 0..r0.len() {
                let slope = r1[k] - r0[k];
                let second = r2[k] - r1[k].double() + r0[k];
                if second == F::ZERO && slope != F::ZERO {
                    sol = Some(-r0[k] * slope.inverse());
                    break;
                }
            }
            if let Some(val) = sol {
                if eval_at(Some((u, val))).iter().any(|r| *r != F::ZERO) {
                    return false;
                }
                if u < n {
                    s[u] = Some(val);
                } else {
                    pubs[u - n] = Some(val);
                }
                progress = true;
            }
        }
        if !progress {
            return true;
        }
    }
}

fn all_ops_hold(c: &Circuit<F>, s: &[F], pubs: &[F], dead: &[bool]) -> Option<usize> {
    let d = |i: usize| dead[i];
    for (i, op) in c.ops.iter().enumerate() {
        if op_relation_holds(op, s, pubs, &d) == Some(false) {
            return Some(i);
        }
    }
    None
}

/// An assignment (slots, public values) that satisfies every emitted op, built from the real
/// circuit only: the op list is solved as a system of equations.  Variables listed in `fixed_s`
/// / `fixed_p` keep their value; every other variable is solved from the ops where an op
/// determines it, and gets a random value where the ops leave it free (in `order`).
fn ops_satisfying_assignment(
    c: &Circuit<F>,
    npub: usize,
    fixed_s: &[(usize, F)],
    fixed_p: &[(usize, F)],
    dead: &[bool],
    shuffle: bool,
    rng: &mut StdRng,
) -> Option<(Vec<F>, Vec<F>)> {
    let n = c.witness_count as usize;
    let mut s: Vec<Option<F>> = vec![None; n];
    let mut p: Vec<Option<F>> = vec![None; npub];
    for (i, v) in fixed_s {
        s[*i] = Some(*v);
    }
    for (i, v) in fixed_p {
        p[*i] = Some(*v);
    }
    let mut order: Vec<usize> = (0..n).collect();
    if shuffle {
        for i in (1..n).rev() {
            order.swap(i, rng.random_range(0..=i));
        }
    }
    for _round in 0..(n + 2) {
        if !propagate_ops(c, &mut s, &mut p, dead) {
            return None;
        }
        // give a random value to the first undetermined slot
        match order.iter().find(|&&i| s[i].is_none()) {
            None => break,
            Some(&i) => s[i] = Some(rand_f(rng).0),
        }
    }
    if !propagate_ops(c, &mut s, &mut p, dead) {
        return None;
    }
    let full: Vec<F> = s.into_iter().map(|x| x.unwrap_or(F::ZERO)).collect();
    // a public input no Public op mentions is free
    let pubs: Vec<F> = p.into_iter().map(|x| x.unwrap_or_else(|| rand_f(rng).0)).collect();
    if all_ops_hold(c, &full, &pubs, dead).is_some() {
        return None;
    }
    Some((full, pubs))
}

pub fn op_to_json(op: &Op<F>) -> Value {
    match op {
        Op::Const { out, val } => json!({"k":"Const","out":out.0,"v":fu(*val)}),
        Op::Public { out, public_pos } => json!({"k":"Public","out":out.0,"v":public_pos}),
        Op::Alu { kind, a, b, c, out, intermediate_out } => json!({
            "k": format!("{kind:?}"), "a": a.0, "b": b.0, "c": c.map(|c| c.0 as i64).unwrap_or(-1),
            "out": out.0, "io": intermediate_out.map(|c| c.0 as i64).unwrap_or(-1)}),
        Op::Hint { inputs, outputs, .. } => json!({"k":"Hint","in":inputs.iter().map(|w| w.0).collect::<Vec<_>>(),"out":outputs.iter().map(|w| w.0).collect::<Vec<_>>()}),
        Op::NonPrimitiveOpWithExecutor { inputs, outputs, op_id, .. } => json!({"k":"Npo","id":op_id.0,
            "in":inputs.iter().map(|g| g.iter().map(|w| w.0).collect::<Vec<_>>()).collect::<Vec<_>>(),
            "out":outputs.iter().map(|g| g.iter().map(|w| w.0).collect::<Vec<_>>()).collect::<Vec<_>>()}),
    }
}

pub fn circuit_json(c: &Circuit<F>) -> Value {
    let mut rw: Vec<(u32, u32)> = c.witness_rewrite.as_ref().map(|m| m.iter().map(|(a, b)| (a.0, b.0)).collect()).unwrap_or_default();
    rw.sort();
    json!({
        "witness_count": c.witness_count,
        "ops": c.ops.iter().map(op_to_json).collect::<Vec<_>>(),
        "public_rows": c.public_rows.iter().map(|w| w.0).collect::<Vec<_>>(),
        "private_rows": c.private_input_rows.iter().map(|w| w.0).collect::<Vec<_>>(),
        "rewrite": rw,
    })
}

fn prog_json(prog: &Program) -> Value {
    serde_json::to_value(prog).unwrap()
}

// ---------------------------------------------------------------------------------------------
// Signatures: source-level shapes of programs, used to tell known findings from new violations.
// ---------------------------------------------------------------------------------------------

/// Source-level features of a program that known findings are keyed on.  A failure is matched
/// to a known finding only if the *kind* of failure and one of these shapes agree; any other
/// failure is a new violation.
pub fn shapes(prog: &Program, built: Option<&Built>) -> Vec<String> {
    let mut out = Vec::new();
    // two Horner steps with equal (alpha, p_at_z, p_at_x) and different accumulator
    let horners: Vec<&Call> = prog.calls.iter().filter(|c| c.op == "horner").collect();
    for (i, a) in horners.iter().enumerate() {
        for b in &horners[i + 1..] {
            if a.args[1..] == b.args[1..] && a.args[0] != b.args[0] {
                out.push("horner-steps-differ-only-in-acc".to_string());
            }
        }
    }
    if let Some(b) = built {
        let c = &b.circuit;
        // some slot is written by more than one of {Const, Public} ops: connect(public|const, public|const)
        let mut writers: HashMap<u32, usize> = HashMap::new();
        for op in &c.ops {
            if let Op::Const { out, .. } | Op::Public { out, .. } = op {
                *writers.entry(out.0).or_default() += 1;
            }
        }
        if writers.values().any(|&n| n > 1) {
            out.push("connect-joins-two-input-or-const-slots".into());
        }
        if c.witness_rewrite.as_ref().is_some_and(|m| !m.is_empty()) {
            // a dedup removed an op whose out slot another op also writes or an input row owns
            let rw = c.witness_rewrite.as_ref().unwrap();
            let mut defined_elsewhere = false;
            for dup in rw.keys() {
                for op in &c.ops {
                    let o = match op {
                        Op::Const { out, .. } | Op::Public { out, .. } => Some(*out),
                        Op::Alu { out, .. } => Some(*out),
                        _ => None,
                    };
                    if o == Some(*dup) {
                        defined_elsewhere = true;
                    }
                    if let Op::Alu { a, b, c: cc, .. } = op {
                        if *a == *dup || *b == *dup || *cc == Some(*dup) {
                            defined_elsewhere = true;
                        }
                    }
                }
                if c.public_rows.contains(dup) || c.private_input_rows.contains(dup) {
                    defined_elsewhere = true;
                }
            }
            if defined_elsewhere {
                out.push("dedup-removed-op-with-shared-out-slot".into());
            } else {
                out.push("dedup-removed-op".into());
            }
        }
        // a fused mul whose result slot is owned by another op or an input row
        let dead = dead_slots(c);
        for op in &c.ops {
            if let Op::Alu { kind: AluOpKind::MulAdd, intermediate_out: Some(io), .. } = op {
                if !dead[io.0 as usize] {
                    out.push("fused-mul-result-slot-shared".into());
                }
            }
        }
        if c.ops.iter().any(|op| matches!(op, Op::Alu { kind: AluOpKind::HornerAcc, .. })) {
            out.push("has-horner".into());
        }
        // private inputs in positions the bus role assignment does not handle
        for p in &c.private_input_rows {
            let mut operand = false;
            for op in &c.ops {
                if let Op::Alu { kind, a, b, c: cc, out: o, .. } = op {
                    if o == p && *kind != AluOpKind::BoolCheck {
                        out.push("private-input-is-alu-out".into());
                    }
                    if o == p && *kind == AluOpKind::BoolCheck {
                        out.push("bool-check-on-private-input".into());
                    }
                    let n = [Some(*a), Some(*b), *cc].iter().filter(|x| **x == Some(*p)).count();
                    if n > 1 && *kind != AluOpKind::BoolCheck {
                        out.push("private-input-twice-in-one-op".into());
                    }
                    operand |= n > 0;
                }
            }
            if !operand {
                out.push("private-input-not-an-alu-operand".into());
            }
        }
    }
    out.sort();
    out.dedup();
    out
}

fn sig(kind: &str, prog: &Program, built: Option<&Built>) -> String {
    let s = shapes(prog, built);
    if s.is_empty() { format!("{kind}@plain") } else { format!("{kind}@{}", s.join("+")) }
}

// ---------------------------------------------------------------------------------------------
// C02
// ---------------------------------------------------------------------------------------------
pub struct Stats {
    pub programs: u64,
    pub built: u64,
    pub sat_inputs: u64,
    pub no_sat_input: u64,
    pub violating_inputs: u64,
    pub zero_div_inputs: u64,
    pub runs: u64,
    pub values_compared: u64,
    pub c03_points: u64,
    pub c03_tangent_candidates: u64,
    pub c03_confirmed: u64,
    pub c03_skipped: u64,
    pub drift_ops: u64,
    pub drift_ids: u64,
    pub den0_checked: u64,
}
impl Default for Stats {
    fn default() -> Self {
        Stats { programs: 0, built: 0, sat_inputs: 0, no_sat_input: 0, violating_inputs: 0, zero_div_inputs: 0, runs: 0,
            values_compared: 0, c03_points: 0, c03_tangent_candidates: 0, c03_confirmed: 0, c03_skipped: 0, drift_ops: 0, drift_ids: 0, den0_checked: 0 }
    }
}

pub fn check_values_on(
    prog: &Program,
    built: &Built,
    x: &[P3<F>],
    ev: &Eval<P3<F>>,
    st: &mut Stats,
    findings: &mut Vec<Finding>,
) {
    let c = &built.circuit;
    let pubs = fv(&x[..prog.npub]);
    let privs = fv(&x[prog.npub..]);
    let out = run(c, &pubs, &privs);
    st.runs += 1;
    let input = json!({"pub": pubs.iter().map(|v| fu(*v)).collect::<Vec<_>>(), "priv": privs.iter().map(|v| fu(*v)).collect::<Vec<_>>()});
    if out.err.as_deref().is_some_and(|e| e.contains("PANIC")) {
        findings.push(Finding { property: "C02".into(), kind: "runner-panic".into(), signature: sig("runner-panic", prog, Some(built)),
            detail: json!({"program": prog_json(prog), "input": input, "circuit": circuit_json(c)}) });
        return;
    }
    if ev.satisfied() {
        match &out.traces {
            None => findings.push(Finding {
                property: "C02".into(),
                kind: "run-fails-on-satisfying-input".into(),
                signature: sig("run-fails-on-satisfying-input", prog, Some(built)),
                detail: json!({"program": prog_json(prog), "input": input, "error": out.err, "circuit": circuit_json(c)}),
            }),
            Some(t) => {
                for (h, e) in built.hid.iter().enumerate() {
                    let want = ev.handles[h].unwrap().0;
                    let got = widx(c, *e).and_then(|w| t.witness_trace.get_value(WitnessId(w as u32)).copied());
                    st.values_compared += 1;
                    if got != Some(want) {
                        findings.push(Finding {
                            property: "C02".into(),
                            kind: "value-mismatch".into(),
                            signature: sig("value-mismatch", prog, Some(built)),
                            detail: json!({"program": prog_json(prog), "input": input, "handle": h, "expr": e.0,
                                "expected": fu(want), "got": got.map(fu), "circuit": circuit_json(c)}),
                        });
                        break;
                    }
                }
            }
        }
    } else if ev.all_defined() {
        // an asserted relation is violated: the run must fail, or leave an op relation violated
        if let Some(t) = &out.traces {
            let n = c.witness_count as usize;
            let s: Vec<F> = (0..n).map(|i| *t.witness_trace.get_value(WitnessId(i as u32)).unwrap()).collect();
            let dead = dead_slots(c);
            if all_ops_hold(c, &s, &pubs, &dead).is_none() {
                findings.push(Finding {
                    property: "C02".into(),
                    kind: "violation-undetected".into(),
                    signature: sig("violation-undetected", prog, Some(built)),
                    detail: json!({"program": prog_json(prog), "input": input, "circuit": circuit_json(c),
                        "note": "an asserted relation is violated on this input, yet the run succeeds and every emitted op relation holds on the produced witness"}),
                });
            }
        }
    }
}

pub fn check_c02(prog: &Program, built: &Built, rng: &mut StdRng, st: &mut Stats, findings: &mut Vec<Finding>) {
    // 1. satisfying inputs
    match find_satisfying(prog, rng, false) {
        Some(x) => {
            st.sat_inputs += 1;
            let ev = eval_program(prog, &x[..prog.npub], &x[prog.npub..]);
            check_values_on(prog, built, &x, &ev, st, findings);
        }
        None => st.no_sat_input += 1,
    }
    // 2. random inputs (violating whenever a non-trivial relation is asserted), and small inputs
    //    (which hit zero divisors and boolean values)
    let n = prog.npub + prog.npriv;
    let mut inputs: Vec<Vec<P3<F>>> = vec![(0..n).map(|_| rand_f(rng)).collect()];
    inputs.push((0..n).map(|_| P3::from_small(rng.random::<u64>() % 3)).collect());
    for x in inputs {
        let ev = eval_program(prog, &x[..prog.npub], &x[prog.npub..]);
        if ev.zero_divisor {
            st.zero_div_inputs += 1;
            continue;
        }
        if !ev.satisfied() {
            st.violating_inputs += 1;
        }
        check_values_on(prog, built, &x, &ev, st, findings);
    }
}

// ---------------------------------------------------------------------------------------------
// C03
// ---------------------------------------------------------------------------------------------
pub fn check_c03(prog: &Program, built: &Built, rng: &mut StdRng, st: &mut Stats, findings: &mut Vec<Finding>) {
    let c = &built.circuit;
    let n = c.witness_count as usize;
    let nvars = n + prog.npub;
    let dead = dead_slots(c);
    let report = |st: &mut Stats, findings: &mut Vec<Finding>, what: &str, s: &[F], pubs: &[F]| {
        st.c03_confirmed += 1;
        findings.push(Finding {
            property: "C03".into(),
            kind: "relation-not-implied-by-ops".into(),
            signature: sig("relation-not-implied-by-ops", prog, Some(built)),
            detail: json!({"program": prog_json(prog), "relation": what, "public_values": pubs.iter().map(|v| fu(*v)).collect::<Vec<_>>(),
                "assignment": s.iter().map(|v| fu(*v)).collect::<Vec<_>>(), "circuit": circuit_json(c),
                "note": "the assignment satisfies every emitted op relation and every constant, but not this source relation"}),
        });
    };
    // generic points of the variety cut out by the emitted ops (no honest run involved)
    let mut point = None;
    for t in 0..4 {
        if let Some(p) = ops_satisfying_assignment(c, prog.npub, &[], &[], &dead, t > 0, rng) {
            point = Some(p);
            break;
        }
    }
    let Some((s0, pubs)) = point else {
        st.c03_skipped += 1; // the op list is unsatisfiable (or the solver could not find a point)
        return;
    };
    st.c03_points += 1;
    let src = match source_relations(prog, built, &s0, &pubs) {
        Ok(s) => s,
        Err(e) => {
            findings.push(Finding { property: "C03".into(), kind: "unmapped-expression".into(), signature: sig("unmapped-expression", prog, Some(built)),
                detail: json!({"program": prog_json(prog), "error": e, "circuit": circuit_json(c)}) });
            return;
        }
    };
    // exact check first: the ops-satisfying point must satisfy the source relations
    if let Some(bad) = src.iter().find(|r| r.residual != F::ZERO) {
        report(st, findings, &bad.what, &s0, &pubs);
        return;
    }
    // tangent test: every source gradient must lie in the span of the op gradients
    let mut jops: Vec<Vec<P3<F>>> = op_gradients(c, &s0, &dead).iter().map(|g| dense(g, nvars)).collect();
    let piv = linalg::row_reduce(&mut jops, nvars);
    if src.iter().all(|r| linalg::in_row_space(&jops, &piv, &dense(&r.grad, nvars))) {
        return;
    }
    st.c03_tangent_candidates += 1;
    // exact confirmation: move along the free directions of the op system and re-solve
    let free: Vec<usize> = (0..nvars).filter(|i| !piv.contains(i)).collect();
    for &fvar in &free {
        for _try in 0..3 {
            let mut fixed_s: Vec<(usize, F)> = Vec::new();
            let mut fixed_p: Vec<(usize, F)> = Vec::new();
            for &g in &free {
                let val = if g == fvar { rand_f(rng).0 } else if g < n { s0[g] } else { pubs[g - n] };
                if g < n {
                    fixed_s.push((g, val));
                } else {
                    fixed_p.push((g - n, val));
                }
            }
            let Some((s1, pubs1)) = ops_satisfying_assignment(c, prog.npub, &fixed_s, &fixed_p, &dead, false, rng) else { continue };
            let Ok(src1) = source_relations(prog, built, &s1, &pubs1) else { continue };
            if let Some(bad) = src1.iter().find(|r| r.residual != F::ZERO) {
                report(st, findings, &bad.what, &s1, &pubs1);
                return;
            }
        }
    }
    // tangent-only evidence is not reported as a violation (it can be an artefact of a singular point)
}

// ---------------------------------------------------------------------------------------------
// model binding: oracle cross-check against TLC's GF(p) values, drift of predicted structure
// ---------------------------------------------------------------------------------------------
pub fn check_den0(rec: &Rec, st: &mut Stats) -> Result<(), String> {
    if rec.den0.is_empty() {
        return Ok(());
    }
    crate::oracle::GF_P.with(|p| p.set(rec.p));
    let prog = rec.program();
    let pubs: Vec<Gf> = (1..=rec.npub as u64).map(|i| Gf::new((i + 1) % rec.p, rec.p)).collect();
    let privs: Vec<Gf> = (1..=rec.npriv as u64).map(|i| Gf::new((i + 2) % rec.p, rec.p)).collect();
    let ev = eval_program(&prog, &pubs, &privs);
    st.den0_checked += 1;
    for (h, id) in rec.ids.iter().enumerate() {
        let model = rec.den0[*id as usize];
        // undefined in the oracle = a zero divisor upstream: the properties say nothing there
        let Some(mine) = ev.handles[h].map(|g| g.v as i64) else { continue };
        if model != mine {
            return Err(format!("oracle/model disagreement on handle {h}: TLC {model}, oracle {mine} (program {:?})", rec.calls));
        }
    }
    Ok(())
}

pub fn model_drift(rec: &Rec, built: &Built, st: &mut Stats) {
    if rec.ops.is_empty() {
        return;
    }
    // constants of the model are reduced mod p, so compare structure only: kinds and slots
    let real: Vec<(String, i64, i64, i64, i64, i64)> = built
        .circuit
        .ops
        .iter()
        .map(|op| match op {
            Op::Const { out, .. } => ("Const".to_string(), -1, -1, -1, out.0 as i64, -1),
            Op::Public { out, .. } => ("Public".to_string(), -1, -1, -1, out.0 as i64, -1),
            Op::Alu { kind, a, b, c, out, intermediate_out } => (
                match kind {
                    AluOpKind::Add => "Add",
                    AluOpKind::Mul => "Mul",
                    AluOpKind::BoolCheck => "Bool",
                    AluOpKind::MulAdd => "MulAdd",
                    AluOpKind::HornerAcc => "Horner",
                }
                .to_string(),
                a.0 as i64,
                b.0 as i64,
                c.map(|c| c.0 as i64).unwrap_or(-1),
                out.0 as i64,
                intermediate_out.map(|c| c.0 as i64).unwrap_or(-1),
            ),
            Op::Hint { inputs, outputs, .. } if inputs.len() == 1 && outputs.len() == 2 => {
                ("Hint".to_string(), inputs[0].0 as i64, -1, outputs[1].0 as i64, outputs[0].0 as i64, -1)
            }
            _ => ("Other".to_string(), -1, -1, -1, -1, -1),
        })
        .collect();
    let model: Vec<(String, i64, i64, i64, i64, i64)> = rec.ops.iter().map(|o| (o.k.clone(), o.a, o.b, o.c, o.out, o.io)).collect();
    // Constant folding wraps around mod p in the model (2+2 = 1 in GF(3)) and not in the real
    // field, so programs that fold constants legitimately differ in their constant pools.
    let is_const = |h: usize| rec.gk.get(rec.ids[h] as usize).is_some_and(|k| k == "const");
    let mut folds = false;
    for c in &rec.calls {
        if matches!(c.op.as_str(), "connect" | "azero" | "abool") {
            continue;
        }
        // decompose_to_bits defines the constants 2^j itself (2 = -1 in GF(3))
        folds |= c.args.iter().all(|&a| is_const(a)) || c.op == "bits2";
    }
    let ids: Vec<i64> = built.hid.iter().map(|e| e.0 as i64).collect();
    // the same op kinds in the same order over constant pools of different size: a constant the builder synthesises
    // (-1 for `0 - x`, 2^j for bit decompositions) coincides with a pooled one in GF(p_model) and not in the real field
    let kinds_only = |v: &Vec<(String, i64, i64, i64, i64, i64)>| v.iter().filter(|o| o.0 != "Const").map(|o| o.0.clone()).collect::<Vec<_>>();
    let nconst = |v: &Vec<(String, i64, i64, i64, i64, i64)>| v.iter().filter(|o| o.0 == "Const").count();
    let pool_only = kinds_only(&real) == kinds_only(&model) && nconst(&real) != nconst(&model);
    if real != model || ids != rec.ids {
        if folds || pool_only {
            st.drift_ids += 1; // explained: constant folding over different characteristics
        } else {
            st.drift_ops += 1; // unexplained structural drift between model and code
            if std::env::var("P3R_DRIFT_DEBUG").is_ok() {
                eprintln!("DRIFT calls={} real={:?} model={:?} ids={:?} model_ids={:?}", serde_json::to_string(&rec.calls).unwrap_or_default(), real, model, ids, rec.ids);
            }
        }
    }
}

// ---------------------------------------------------------------------------------------------
// C09 ledger, C10 prove/verify
// ---------------------------------------------------------------------------------------------
#[derive(Default, Clone, Debug)]
pub struct SlotLedger {
    pub creators: Vec<(String, usize, i64)>, // table, row, multiplicity
    pub reads: i64,
}

pub struct Ledger {
    pub slots: Vec<SlotLedger>,
    /// operands of ALU rows whose cell is not tied to the bus: (row, operand, kind)
    pub floating: Vec<(usize, &'static str, String)>,
}

pub struct Prep {
    pub cpd: CircuitProverData<BabyBearConfig>,
    pub base_prep: Vec<Vec<F>>,
    pub alu_air: Option<p3_circuit_prover::air::AluAir<F, 1>>,
}

pub fn prepare(c: &Circuit<F>, packing: &TablePacking) -> Result<Prep, String> {
    let cfg = config::baby_bear();
    let r = catch_unwind(AssertUnwindSafe(|| {
        get_airs_and_degrees_with_prep::<BabyBearConfig, _, 1>(c, packing, &[], &[], ConstraintProfile::Standard)
    }));
    let (airs_degrees, pc, npc) = match r {
        Ok(Ok(x)) => x,
        Ok(Err(e)) => return Err(format!("prep error: {e:?}")),
        Err(_) => return Err("PANIC in get_airs_and_degrees_with_prep".into()),
    };
    let (airs, degs): (Vec<_>, Vec<usize>) = airs_degrees.into_iter().unzip();
    let alu_air = airs.iter().find_map(|a| match a {
        p3_circuit_prover::common::CircuitTableAir::Alu(air) => Some(air.clone()),
        _ => None,
    });
    let r = catch_unwind(AssertUnwindSafe(|| ProverData::from_airs_and_degrees(&cfg, &airs, &degs)));
    let pd = r.map_err(|_| "PANIC in ProverData::from_airs_and_degrees".to_string())?;
    let base_prep = pc.clone();
    Ok(Prep { cpd: CircuitProverData::new(pd, pc, npc), base_prep, alu_air })
}

/// Bus ledger of the primitive tables, read off the preprocessed columns the verifier commits to.
pub fn ledger(c: &Circuit<F>, prep: &Prep) -> Ledger {
    let n = c.witness_count as usize;
    let mut slots = vec![SlotLedger::default(); n];
    let to_i = |f: F| -> i64 {
        let v = f.as_canonical_u64();
        if v > F::ORDER_U64 / 2 { v as i64 - F::ORDER_U64 as i64 } else { v as i64 }
    };
    let add = |slots: &mut Vec<SlotLedger>, table: &str, row: usize, slot: usize, mult: i64| {
        if slot >= slots.len() {
            slots.resize(slot + 1, SlotLedger::default());
        }
        if mult > 0 {
            slots[slot].creators.push((table.to_string(), row, mult));
        } else if mult < 0 {
            slots[slot].reads += -mult;
        } else {
            // multiplicity 0: a creator row nobody reads, or a skipped operand
        }
    };
    // Const = table 0, Public = table 1: [mult, idx] pairs
    for (ti, name) in [(0usize, "Const"), (1usize, "Public")] {
        for (row, ch) in prep.base_prep[ti].chunks(2).enumerate() {
            let slot = ch[1].as_canonical_u64() as usize;
            let m = to_i(ch[0]);
            if m == 0 {
                if slot >= slots.len() {
                    slots.resize(slot + 1, SlotLedger::default());
                }
                slots[slot].creators.push((name.to_string(), row, 0));
            } else {
                add(&mut slots, name, row, slot, m);
            }
        }
    }
    let mut floating = Vec::new();
    let alu_ops: Vec<&Op<F>> = c.ops.iter().filter(|op| matches!(op, Op::Alu { .. })).collect();
    // the 3-state role (0 skip / 1 reader / 2 creator) of a and c, before multiplicities are
    // derived: a creator nobody reads has multiplicity 0 like a skipped operand, but is harmless
    let raw = c.generate_preprocessed_columns::<1>().ok().map(|p| p.primitive[2].clone()).unwrap_or_default();
    for (row, ch) in prep.base_prep[2].chunks(13).enumerate() {
        if row >= alu_ops.len() {
            break; // dummy row of an empty ALU table
        }
        let mult_a = to_i(ch[0]);
        let (a_idx, b_idx, c_idx, out_idx) = (
            ch[5].as_canonical_u64() as usize,
            ch[6].as_canonical_u64() as usize,
            ch[7].as_canonical_u64() as usize,
            ch[8].as_canonical_u64() as usize,
        );
        let (mult_b, mult_out, a_rd, c_rd) = (to_i(ch[9]), to_i(ch[10]), to_i(ch[11]), to_i(ch[12]));
        let eff_a = mult_a * a_rd;
        let eff_c = mult_a * c_rd;
        let Op::Alu { kind, b, out, .. } = alu_ops[row] else { unreachable!() };
        add(&mut slots, "Alu.a", row, a_idx, eff_a);
        add(&mut slots, "Alu.b", row, b_idx, mult_b);
        add(&mut slots, "Alu.out", row, out_idx, mult_out);
        let uses_c = matches!(kind, AluOpKind::MulAdd | AluOpKind::HornerAcc);
        if uses_c || eff_c != 0 {
            add(&mut slots, "Alu.c", row, c_idx, eff_c);
        }
        // creator rows with zero readers have multiplicity 0: they are still creators
        let kindname = format!("{kind:?}");
        // a cell floats when its operand has no bus interaction at all and the slot is not tied
        // to another cell of the same row that is on the bus
        let state = |col: usize| raw.get(row * 12 + col).map(|v| v.as_canonical_u64()).unwrap_or(1);
        if eff_a == 0 && state(8) == 0 {
            floating.push((row, "a", kindname.clone()));
        }
        if uses_c && eff_c == 0 && state(10) == 0 {
            floating.push((row, "c", kindname.clone()));
        }
        let _ = (b, out);
    }
    Ledger { slots, floating }
}

/// Is this operand cell, which has no bus interaction of its own, tied by the row constraints
/// to the value its slot has on the bus?  The only way it can be: it aliases `out` and the AIR
/// asserts equality of the two cells.  Test on the real AIR: change the cell, recompute `out`
/// so that the kind's arithmetic relation still holds (the two cells now differ), and evaluate
/// the constraints of the honest table with that one row replaced.  Accepted = the cell floats.
fn cell_floats(prep: &Prep, traces: &Traces<F>, row: usize, operand: &str) -> Option<bool> {
    let air = prep.alu_air.as_ref()?;
    let r = catch_unwind(AssertUnwindSafe(|| {
        let mut t = traces.alu_trace.clone();
        let delta = F::from_u64(0x5eed);
        let kind = t.op_kind[row];
        let v = &mut t.values[row];
        match operand {
            "a" => v[0] += delta,
            _ => v[2] += delta,
        }
        // keep the arithmetic relation of the row true by recomputing out
        match kind {
            AluOpKind::Add => v[3] = v[0] + v[1],
            AluOpKind::Mul => v[3] = v[0] * v[1],
            AluOpKind::MulAdd => v[3] = v[0] * v[1] + v[2],
            AluOpKind::BoolCheck => {
                // a boolean a-cell next to the unchanged out
                v[0] = if v[3] == F::ZERO { F::ONE } else { F::ZERO };
                v[2] = v[0];
            }
            AluOpKind::HornerAcc => {}
        }
        let m = air.trace_to_matrix::<F>(&t, 1);
        p3_test_utils::air_satisfaction::check_air_satisfies::<F, F, _>(air, &m, &[]).is_ok()
    }));
    r.ok()
}

pub fn check_c09(prog: &Program, built: &Built, rng: &mut StdRng, st: &mut Stats, findings: &mut Vec<Finding>) {
    let _ = st;
    let c = &built.circuit;
    let packing = TablePacking::new(1, 1);
    let prep = match prepare(c, &packing) {
        Ok(p) => p,
        Err(e) => {
            findings.push(Finding { property: "C09".into(), kind: "preprocessing-fails".into(), signature: sig("preprocessing-fails", prog, Some(built)),
                detail: json!({"program": prog_json(prog), "error": e, "circuit": circuit_json(c)}) });
            return;
        }
    };
    let l = ledger(c, &prep);
    for (slot, sl) in l.slots.iter().enumerate() {
        let sum: i64 = sl.creators.iter().map(|c| c.2).sum::<i64>() - sl.reads;
        let ncre = sl.creators.len();
        if sl.reads > 0 && (ncre != 1 || sum != 0) {
            let mut tabs: Vec<&str> = sl.creators.iter().map(|c| c.0.as_str()).collect();
            tabs.sort();
            let kind = if ncre == 0 { "read-slot-without-creator".to_string() } else if ncre > 1 { format!("slot-with-several-creators:{}", tabs.join(",")) } else { "creator-multiplicity-differs-from-reads".to_string() };
            let kind = kind.as_str();
            findings.push(Finding { property: "C09".into(), kind: kind.into(), signature: sig(kind, prog, Some(built)),
                detail: json!({"program": prog_json(prog), "slot": slot, "creators": sl.creators.iter().map(|c| json!([c.0, c.1, c.2])).collect::<Vec<_>>(),
                    "reads": sl.reads, "circuit": circuit_json(c)}) });
            return;
        }
    }
    // operands without bus interaction: confirmed on the real AIR with the honest row
    let honest = if l.floating.is_empty() { None } else {
        find_satisfying(prog, rng, false).and_then(|x| run(c, &fv(&x[..prog.npub]), &fv(&x[prog.npub..])).traces)
    };
    let confirmed: Vec<&(usize, &'static str, String)> = l.floating.iter().filter(|(row, operand, _)| match &honest {
        Some(t) => cell_floats(&prep, t, *row, operand) != Some(false),
        None => false, // no honest execution to test with: not reported
    }).collect();
    if let Some((row, operand, kind)) = confirmed.first() {
        let k = format!("operand-not-on-bus:{kind}.{operand}");
        findings.push(Finding { property: "C09".into(), kind: k.clone(), signature: sig(&k, prog, Some(built)),
            detail: json!({"program": prog_json(prog), "alu_row": row, "operand": operand, "op_kind": kind, "circuit": circuit_json(c)}) });
    }
}

pub fn prove_verify(c: &Circuit<F>, traces: &Traces<F>, packing: TablePacking) -> Result<(), String> {
    let prep = prepare(c, &packing)?;
    let prover = BatchStarkProver::new(config::baby_bear()).with_table_packing(packing);
    let r = catch_unwind(AssertUnwindSafe(|| {
        let proof = prover.prove_all_tables(traces, &prep.cpd).map_err(|e| format!("prove: {e:?}"))?;
        prover.verify_all_tables::<F>(&proof).map_err(|e| format!("verify: {e:?}"))?;
        // C18: the verifying data the proof is checked against is the one an independent compilation
        // (get_airs_and_degrees_with_prep + ProverData::from_airs_and_degrees) produces
        // (commitment, per-instance preprocessed metadata: a table shorter than the Merkle cap does not enter the commitment)
        let own = format!("{:?}", prep.cpd.prover_data.common.preprocessed.as_ref().map(|g| (&g.commitment, g.instances.iter().map(|m| m.as_ref().map(|m| (m.matrix_index, m.width, m.degree_bits))).collect::<Vec<_>>())));
        let carried = format!("{:?}", proof.stark_common.preprocessed.as_ref().map(|g| (&g.commitment, g.instances.iter().map(|m| m.as_ref().map(|m| (m.matrix_index, m.width, m.degree_bits))).collect::<Vec<_>>())));
        if own != carried {
            return Err("verifying-data: the preprocessed commitment the proof carries (and is verified against) differs from the independently compiled one".into());
        }
        Ok(())
    }));
    match r {
        Ok(x) => x,
        Err(_) => Err("PANIC in prove/verify".into()),
    }
}

pub fn check_c10(prog: &Program, built: &Built, rng: &mut StdRng, packings: &[(usize, usize, usize, usize)], findings: &mut Vec<Finding>) -> u64 {
    let c = &built.circuit;
    let Some(x) = find_satisfying(prog, rng, false) else { return 0 };
    let pubs = fv(&x[..prog.npub]);
    let privs = fv(&x[prog.npub..]);
    let out = run(c, &pubs, &privs);
    let Some(traces) = out.traces else {
        return 0; // a failing run on a satisfying input is C02's finding
    };
    // D4 shape: a Horner step whose accumulator value is not the value the AIR reads
    // (the out of the directly preceding Horner step, or 0 at the start of a chain)
    let mut horner_unchained = false;
    {
        let mut prev: Option<F> = None;
        for op in &c.ops {
            if let Op::Alu { kind, out, intermediate_out, .. } = op {
                if *kind == AluOpKind::HornerAcc {
                    let acc = *traces.witness_trace.get_value(intermediate_out.unwrap()).unwrap();
                    if acc != prev.unwrap_or(F::ZERO) {
                        horner_unchained = true;
                    }
                    prev = Some(*traces.witness_trace.get_value(*out).unwrap());
                } else {
                    prev = None;
                }
            }
        }
    }
    // second Horner shape: a step that is not the last of its chain, whose out some op reads as an
    // ordinary operand: a packed row (k >= 2 consecutive steps, same b) creates only the last out
    let mut horner_mid_out_read = false;
    {
        let alu: Vec<&Op<F>> = c.ops.iter().filter(|op| matches!(op, Op::Alu { .. })).collect();
        for i in 0..alu.len().saturating_sub(1) {
            if let (Op::Alu { kind: AluOpKind::HornerAcc, out, b: b0, .. }, Op::Alu { kind: AluOpKind::HornerAcc, b: b1, .. }) = (alu[i], alu[i + 1]) {
                if b0 == b1 {
                    let read = c.ops.iter().any(|op| matches!(op, Op::Alu { a, b, c: cc, .. } if a == out || b == out || *cc == Some(*out)));
                    if read {
                        horner_mid_out_read = true;
                    }
                }
            }
        }
    }
    let mut n = 0;
    for &(pl, al, k, mh) in packings {
        let packing = TablePacking::new(pl, al).with_horner_pack_k(k).with_min_trace_height(mh);
        n += 1;
        if let Err(e) = prove_verify(c, &traces, packing) {
            let kind = if e.contains("PANIC") { "prove-panics" } else if e.starts_with("verifying-data") { "proof-carries-other-verifying-data-than-compiled" } else if e.starts_with("verify") { "honest-proof-rejected" } else { "cannot-prove-satisfying-input" };
            let short: String = e.chars().take(160).collect();
            let mut signature = sig(kind, prog, Some(built));
            if horner_unchained {
                signature.push_str("+horner-acc-differs-from-preceding-row");
            }
            if horner_mid_out_read {
                signature.push_str("+packed-horner-intermediate-out-read-elsewhere");
            }
            findings.push(Finding { property: "C10".into(), kind: kind.into(), signature,
                detail: json!({"program": prog_json(prog), "input": {"pub": pubs.iter().map(|v| fu(*v)).collect::<Vec<_>>(), "priv": privs.iter().map(|v| fu(*v)).collect::<Vec<_>>()},
                    "packing": {"public_lanes": pl, "alu_lanes": al, "horner_k": k, "min_height": mh}, "error": short, "circuit": circuit_json(c)}) });
            break;
        }
    }
    n
}

pub fn seeded(seed: u64, salt: u64) -> StdRng {
    StdRng::seed_from_u64(seed.wrapping_mul(0x9E3779B97F4A7C15).wrapping_add(salt))
}

// ---------------------------------------------------------------------------------------------
// C04: fault enumeration against the real prover / verifier
// ---------------------------------------------------------------------------------------------
#[derive(Default)]
pub struct ForgeStats {
    pub programs: u64,
    pub forgeries: u64,
    pub rejected: u64,
    pub harmless_skipped: u64,
    pub accepted_harmful: u64,
    pub classes: std::collections::BTreeMap<String, u64>,
}

/// accumulator of a HornerAcc op in a trace (the value of the slot its `intermediate_out` names)
fn op_acc(op: &Op<F>, t: &Traces<F>) -> Option<F> {
    match op {
        Op::Alu { intermediate_out: Some(io), .. } => t.witness_trace.get_value(*io).copied(),
        _ => None,
    }
}

fn row_relation_holds(kind: AluOpKind, v: &[F; 4], acc: Option<F>) -> bool {
    match kind {
        AluOpKind::Add => v[0] + v[1] == v[3],
        AluOpKind::Mul => v[0] * v[1] == v[3],
        AluOpKind::BoolCheck => v[0] * (v[0] - F::ONE) == F::ZERO && v[3] == v[0],
        AluOpKind::MulAdd => v[0] * v[1] + v[2] == v[3],
        AluOpKind::HornerAcc => acc.is_none_or(|ac| ac * v[1] + v[2] - v[0] == v[3]),
    }
}

/// Every single-cell deviation of the primitive tables of an honest trace, every desynchronised
/// pair of cells that alias one slot, and every altered constant, proven with the prover data of
/// the unmodified circuit and verified by the real verifier.  A deviation that breaks a row
/// relation or changes a value that takes part in the bus must be rejected.
pub fn check_c04(prog: &Program, built: &Built, rng: &mut StdRng, fs: &mut ForgeStats, max_forgeries: usize, findings: &mut Vec<Finding>) {
    use crate::forge::{Verdict, prove_verify_with, run_traces};
    let c = &built.circuit;
    let Some(x) = find_satisfying(prog, rng, false) else { return };
    let pubs = fv(&x[..prog.npub]);
    let privs = fv(&x[prog.npub..]);
    let Ok(honest) = run_traces(c, &pubs, &privs) else { return };
    let packing = TablePacking::new(1, 1);
    let Ok(prep) = prepare(c, &packing) else { return };
    if prove_verify_with(&prep, &honest, packing.clone()) != Verdict::Accepted {
        return; // the honest proof does not verify: C10's finding, nothing to forge against
    }
    fs.programs += 1;
    let l = ledger(c, &prep);
    let input = json!({"pub": pubs.iter().map(|v| fu(*v)).collect::<Vec<_>>(), "priv": privs.iter().map(|v| fu(*v)).collect::<Vec<_>>()});
    let mut budget = max_forgeries;
    let try_forged = |fs: &mut ForgeStats, findings: &mut Vec<Finding>, t: &Traces<F>, class: String, what: Value, extra_shape: Option<&str>, budget: &mut usize| {
        if *budget == 0 {
            return;
        }
        *budget -= 1;
        fs.forgeries += 1;
        *fs.classes.entry(class.clone()).or_default() += 1;
        match prove_verify_with(&prep, t, packing.clone()) {
            Verdict::Accepted => {
                fs.accepted_harmful += 1;
                let mut signature = sig(&class, prog, Some(built));
                if let Some(s) = extra_shape {
                    signature.push('+');
                    signature.push_str(s);
                }
                findings.push(Finding { property: "C04".into(), kind: class, signature,
                    detail: json!({"program": prog_json(prog), "input": input, "deviation": what, "circuit": circuit_json(c),
                        "note": "the real verifier accepted a proof of this deviating trace"}) });
            }
            _ => fs.rejected += 1,
        }
    };
    // bus multiplicity of every ALU cell, from the committed preprocessed columns
    let to_i = |f: F| -> i64 {
        let v = f.as_canonical_u64();
        if v > F::ORDER_U64 / 2 { v as i64 - F::ORDER_U64 as i64 } else { v as i64 }
    };
    let alu_ops: Vec<&Op<F>> = c.ops.iter().filter(|op| matches!(op, Op::Alu { .. })).collect();
    let delta = F::from_u64(0x5eed);
    for (row, ch) in prep.base_prep[2].chunks(13).enumerate() {
        if row >= alu_ops.len() {
            break;
        }
        let Op::Alu { kind, a, c: cc, out, intermediate_out, .. } = alu_ops[row] else { unreachable!() };
        let mult = [to_i(ch[0]) * to_i(ch[11]), to_i(ch[9]), to_i(ch[0]) * to_i(ch[12]), to_i(ch[10])];
        let acc = if *kind == AluOpKind::HornerAcc { honest.witness_trace.get_value(intermediate_out.unwrap()).copied() } else { None };
        for (k, name) in ["a", "b", "c", "out"].iter().enumerate() {
            let mut t = honest.clone();
            t.alu_trace.values[row][k] += delta;
            // packed Horner rows do not materialise every record cell: a change that does not
            // reach the committed matrix is not a deviation of the trace
            if let Some(air) = prep.alu_air.as_ref() {
                let same = catch_unwind(AssertUnwindSafe(|| air.trace_to_matrix::<F>(&t.alu_trace, 1) == air.trace_to_matrix::<F>(&honest.alu_trace, 1))).unwrap_or(false);
                if same {
                    fs.harmless_skipped += 1;
                    continue;
                }
            }
            let rel = row_relation_holds(*kind, &t.alu_trace.values[row], acc);
            if rel && mult[k] == 0 {
                fs.harmless_skipped += 1;
                continue;
            }
            try_forged(fs, findings, &t, format!("single-cell-deviation-accepted:{kind:?}.{name}"),
                json!({"table": "Alu", "row": row, "cell": name, "relation_still_holds": rel, "bus_multiplicity": mult[k]}), None, &mut budget);
        }
        // two cells that alias one slot, desynchronised while the arithmetic relation holds
        for (k, name, slot) in [(0usize, "a", Some(*a)), (2usize, "c", *cc)] {
            if slot != Some(*out) || (k == 2 && !matches!(kind, AluOpKind::MulAdd)) {
                continue;
            }
            let mut t = honest.clone();
            let v = &mut t.alu_trace.values[row];
            v[k] += delta;
            match kind {
                AluOpKind::Add => v[3] = v[0] + v[1],
                AluOpKind::Mul => v[3] = v[0] * v[1],
                AluOpKind::MulAdd => v[3] = v[0] * v[1] + v[2],
                AluOpKind::BoolCheck => {
                    v[0] = if v[3] == F::ZERO { F::ONE } else { F::ZERO };
                    v[2] = v[0];
                }
                AluOpKind::HornerAcc => continue,
            }
            // out is changed too: if it is a creator its readers now disagree (fine: must be rejected);
            // restore out when the row allows it (BoolCheck keeps out)
            try_forged(fs, findings, &t, format!("aliased-cells-desynchronised-accepted:{kind:?}.{name}"),
                json!({"table": "Alu", "row": row, "cell": name, "aliases": "out"}), None, &mut budget);
        }
    }
    // Const / Public value cells, not propagated
    for (ti, name) in [(0usize, "Const"), (1usize, "Public")] {
        for (row, chx) in prep.base_prep[ti].chunks(2).enumerate() {
            let reads = to_i(chx[0]);
            if reads == 0 {
                fs.harmless_skipped += 1;
                continue;
            }
            let mut t = honest.clone();
            if ti == 0 {
                if row >= t.const_trace.values.len() { continue; }
                t.const_trace.values[row] += delta;
            } else {
                if row >= t.public_trace.values.len() { continue; }
                t.public_trace.values[row] += delta;
            }
            try_forged(fs, findings, &t, format!("single-cell-deviation-accepted:{name}.value"),
                json!({"table": name, "row": row, "reads": reads}), None, &mut budget);
        }
    }
    // ONE relation violated, everything else consistent: operand `b` (Horner: `c`) of one ALU op is redirected to another slot
    // holding a different value, the REAL runner executes the altered circuit (so every later op sees the new result), public
    // inputs are re-solved for the altered circuit, and the redirected cell of that one row is put back to the value of the
    // original operand.  The resulting trace satisfies every row relation and every bus equation of the ORIGINAL circuit
    // except the relation of that row - whatever the packing, the verifier must refuse it.
    {
        let honest_val = |w: WitnessId| honest.witness_trace.get_value(w).copied();
        // the packings under which a forged trace is judged, prepared once per program (Horner packing factors only where
        // the circuit has Horner steps); the default packing reuses the preparation made above
        let has_horner = c.ops.iter().any(|o| matches!(o, Op::Alu { kind: AluOpKind::HornerAcc, .. }));
        let mut preps: Vec<(Prep, TablePacking, &'static str)> = Vec::new();
        if has_horner {
            for (pk, pname) in [(TablePacking::new(1, 1).with_horner_pack_k(3), "k3"), (TablePacking::new(2, 2).with_horner_pack_k(4), "l2k4")] {
                if let Ok(pr) = prepare(c, &pk) {
                    if prove_verify_with(&pr, &honest, pk.clone()) == Verdict::Accepted {
                        preps.push((pr, pk, pname));
                    }
                }
            }
        }
        let mut done_kinds: Vec<AluOpKind> = Vec::new();
        // from the last ALU op backwards: the last step of a packed Horner row is the one whose result the row exposes
        let alu_idx: Vec<usize> = c.ops.iter().enumerate().filter(|(_, o)| matches!(o, Op::Alu { .. })).map(|(i, _)| i).collect();
        for (row, &i) in alu_idx.iter().enumerate().rev() {
            let op = &c.ops[i];
            let Op::Alu { kind, a, b, c: cc, out, .. } = op else { continue };
            if done_kinds.iter().filter(|k| *k == kind).count() >= 2 || *kind == AluOpKind::BoolCheck {
                continue; // two forged rows per op kind and program
            }
            // which operand is redirected, and the cell of the row it occupies
            let (cell, orig) = if *kind == AluOpKind::HornerAcc { (2usize, cc.unwrap()) } else { (1usize, *b) };
            let Some(v0) = honest_val(orig) else { continue };
            // another slot with a different value, not touched by this op
            let Some(subst) = (0..c.witness_count).map(WitnessId).find(|w| *w != orig && *w != *out && *w != *a && Some(*w) != *cc && *w != *b
                && honest_val(*w).is_some_and(|v| v != v0)) else { continue };
            let mut forged = c.clone();
            if let Op::Alu { b: fb, c: fc, .. } = &mut forged.ops[i] {
                if cell == 2 { *fc = Some(subst) } else { *fb = subst }
            }
            let dead = dead_slots(&forged);
            let fixed: Vec<(usize, F)> = c.private_input_rows.iter().zip(&privs).map(|(w, v)| (w.0 as usize, *v)).collect();
            let Some((_, p2)) = ops_satisfying_assignment(&forged, prog.npub, &fixed, &[], &dead, false, rng) else { continue };
            let Ok(mut t) = run_traces(&forged, &p2, &privs) else { continue };
            let Some(orig_now) = t.witness_trace.get_value(orig).copied() else { continue };
            if row >= t.alu_trace.values.len() || t.alu_trace.values[row][cell] == orig_now {
                continue;
            }
            t.alu_trace.values[row][cell] = orig_now;
            if row_relation_holds(*kind, &t.alu_trace.values[row], if *kind == AluOpKind::HornerAcc { op_acc(op, &t) } else { None }) {
                continue; // the substitute happened to give the same result
            }
            done_kinds.push(*kind);
            for (prep_k, pk, pname) in std::iter::once((&prep, &packing, "k2")).chain(preps.iter().map(|(a, b, n)| (a, b, *n))) {
                // a packed Horner row does not materialise the result of its inner steps (the AIR recomputes them): when the
                // committed ALU matrix is the one of the trace with this row's result put right, the deviation is not in the proof
                if let Some(air) = prep_k.alu_air.as_ref() {
                    let mut t_ok = t.clone();
                    let v = t_ok.alu_trace.values[row];
                    t_ok.alu_trace.values[row][3] = match kind {
                        AluOpKind::Add => v[0] + v[1],
                        AluOpKind::Mul => v[0] * v[1],
                        AluOpKind::MulAdd => v[0] * v[1] + v[2],
                        AluOpKind::HornerAcc => op_acc(op, &t).map_or(v[3], |ac| ac * v[1] + v[2] - v[0]),
                        AluOpKind::BoolCheck => v[3],
                    };
                    let same = catch_unwind(AssertUnwindSafe(|| air.trace_to_matrix::<F>(&t.alu_trace, 1) == air.trace_to_matrix::<F>(&t_ok.alu_trace, 1))).unwrap_or(false);
                    if same {
                        fs.harmless_skipped += 1;
                        continue;
                    }
                }
                if budget == 0 {
                    break;
                }
                budget -= 1;
                fs.forgeries += 1;
                let class = format!("single-relation-violation-accepted:{kind:?}");
                *fs.classes.entry(class.clone()).or_default() += 1;
                match prove_verify_with(prep_k, &t, pk.clone()) {
                    Verdict::Accepted => {
                        fs.accepted_harmful += 1;
                        let mut signature = sig(&class, prog, Some(built));
                        signature.push('+');
                        signature.push_str(pname);
                        findings.push(Finding { property: "C04".into(), kind: class, signature,
                            detail: json!({"program": prog_json(prog), "input": input, "deviation": {"op": i, "alu_row": row, "redirected_cell": (if cell == 2 { "c" } else { "b" }), "packing": pname,
                                "row": t.alu_trace.values[row].iter().map(|v| fu(*v)).collect::<Vec<_>>()},
                                "circuit": circuit_json(c), "note": "every row relation and every bus equation of the circuit holds except the relation of this row; the real verifier accepted"}) });
                    }
                    _ => fs.rejected += 1,
                }
            }
        }
    }
    let _ = l;
    // an altered constant, propagated consistently by the real runner
    for (i, op) in c.ops.iter().enumerate() {
        if let Op::Const { out, val } = op {
            let reads = l.slots.get(out.0 as usize).map(|s| s.reads).unwrap_or(0);
            if reads == 0 {
                continue;
            }
            let mut forged = c.clone();
            if let Op::Const { val: v2, .. } = &mut forged.ops[i] {
                *v2 = *val + delta;
            }
            // inputs that satisfy the ALTERED circuit (it asserts different relations)
            let mut found = None;
            for _ in 0..4 {
                let pubs2: Vec<F> = (0..prog.npub).map(|_| rand_f(rng).0).collect();
                let dead = dead_slots(&forged);
                if let Some((_, p2)) = ops_satisfying_assignment(&forged, prog.npub, &c.private_input_rows.iter().zip(&privs).map(|(w, v)| (w.0 as usize, *v)).collect::<Vec<_>>(), &[], &dead, false, rng) {
                    found = Some(p2);
                    break;
                }
                let _ = pubs2;
            }
            let Some(p2) = found else { continue };
            if let Ok(t) = run_traces(&forged, &p2, &privs) {
                try_forged(fs, findings, &t, "altered-constant-accepted".to_string(),
                    json!({"const_op": i, "slot": out.0, "original": fu(*val), "altered": fu(*val + delta), "public_inputs": p2.iter().map(|v| fu(*v)).collect::<Vec<_>>()}),
                    Some("const-values-are-main-trace-cells"), &mut budget);
                break; // one altered constant per program is enough
            }
        }
    }
}

// ---------------------------------------------------------------------------------------------
// C18: canonical digest of everything a prover and a verifier must agree on
// ---------------------------------------------------------------------------------------------
fn fnv(s: &str) -> u64 {
    let mut h: u64 = 0xcbf29ce484222325;
    for b in s.bytes() {
        h ^= b as u64;
        h = h.wrapping_mul(0x100000001b3);
    }
    h
}

/// Canonical description of the compiled circuit and of its verifying data: op list, witness
/// numbering (expr -> slot), input rows, preprocessed columns, table order / degrees,
/// preprocessed commitment.  Hash containers are serialised in sorted order: the digest depends
/// on their content, never on their iteration order.
pub fn digest(built: &Built, packing: &TablePacking) -> Result<(u64, Vec<(String, u64)>), String> {
    let c = &built.circuit;
    let mut parts: Vec<(String, u64)> = Vec::new();
    parts.push(("ops".into(), fnv(&circuit_json(c).to_string())));
    let mut e2w: Vec<(u32, u32)> = c.expr_to_widx.iter().map(|(e, w)| (e.0, w.0)).collect();
    e2w.sort();
    parts.push(("expr_to_widx".into(), fnv(&format!("{e2w:?}"))));
    let pre = c.generate_preprocessed_columns::<1>().map_err(|e| format!("{e:?}"))?;
    let mut dup: Vec<(String, Vec<bool>)> = pre.dup_npo_outputs.iter().map(|(k, v)| (k.as_str().to_string(), v.clone())).collect();
    dup.sort();
    let mut hints: Vec<u32> = pre.hint_output_wids.iter().copied().collect();
    hints.sort();
    parts.push(("preprocessed_columns".into(), fnv(&format!("{:?}|{:?}|{dup:?}|{hints:?}", pre.primitive, pre.ext_reads))));
    let r = catch_unwind(AssertUnwindSafe(|| {
        get_airs_and_degrees_with_prep::<BabyBearConfig, _, 1>(c, packing, &[], &[], ConstraintProfile::Standard)
    }));
    let (airs_degrees, pc, _npc) = match r {
        Ok(Ok(x)) => x,
        Ok(Err(e)) => return Err(format!("{e:?}")),
        Err(_) => return Err("panic in get_airs_and_degrees_with_prep".into()),
    };
    parts.push(("table_columns".into(), fnv(&format!("{pc:?}"))));
    let (airs, degs): (Vec<_>, Vec<usize>) = airs_degrees.into_iter().unzip();
    let kinds: Vec<&str> = airs
        .iter()
        .map(|a| match a {
            p3_circuit_prover::common::CircuitTableAir::Const(_) => "Const",
            p3_circuit_prover::common::CircuitTableAir::Public(_) => "Public",
            p3_circuit_prover::common::CircuitTableAir::Alu(_) => "Alu",
            p3_circuit_prover::common::CircuitTableAir::Dynamic(_) => "Dynamic",
        })
        .collect();
    parts.push(("table_order_and_degrees".into(), fnv(&format!("{kinds:?}{degs:?}"))));
    let cfg = config::baby_bear();
    let pd = catch_unwind(AssertUnwindSafe(|| ProverData::from_airs_and_degrees(&cfg, &airs, &degs))).map_err(|_| "panic in ProverData".to_string())?;
    let commit = pd.common.preprocessed.as_ref().map(|g| format!("{:?}|{:?}", g.commitment, g.matrix_to_instance)).unwrap_or_default();
    parts.push(("preprocessed_commitment".into(), fnv(&commit)));
    let all = fnv(&format!("{parts:?}"));
    Ok((all, parts))
}
