//! C16: proof metadata cannot weaken native verification; serialization preserves the verdict.
//!
//! A case names a configuration (a fixed circuit + prover set-up), a trace kind (honest or one cell of
//! the honest `Traces` changed without propagation), 0..2 alterations of the `BatchStarkProof` metadata
//! and whether the (altered) proof is additionally round-tripped through `serde_json`.  The proof is
//! produced by the real `prove_all_tables` with the prover data of the honest circuit; the verdict is the
//! real `verify_all_tables::<EF>` with the verifier's expected `EF`.
//!
//! `TablePacking` / `RowCounts` have private fields: they are altered through their own serde
//! representation (exactly what a deserialized proof can carry); all other fields are `pub`.
use std::collections::BTreeMap;
use std::hash::Hash;
use std::io::{BufRead, BufReader, Write};
use std::panic::{AssertUnwindSafe, catch_unwind};
use std::sync::Mutex;

use p3_baby_bear::BabyBear;
use p3_batch_stark::common::GlobalPreprocessed;
use p3_batch_stark::{CommonData, ProverData, StarkGenericConfig, Val};
use p3_circuit::ops::recompose::RecomposeTrace;
use p3_circuit::ops::{NpoTypeId, Poseidon2Config, Poseidon2PermCall, Poseidon2Trace, generate_poseidon2_trace, generate_recompose_trace};
use p3_circuit::{AluOpKind, Circuit, CircuitBuilder, ExprId, Traces};
use p3_circuit_prover::batch_stark_prover::{AirVariant, BatchStarkProof, NonPrimitiveTableEntry, poseidon2_air_builders, recompose_air_builders};
use p3_circuit_prover::common::{NpoPreprocessor, get_airs_and_degrees_with_prep};
use p3_circuit_prover::config::{self, BabyBearConfig, KoalaBearConfig};
use p3_circuit_prover::{BatchStarkProver, CircuitProverData, ConstraintProfile, Poseidon2Preprocessor, RecomposePreprocessor, TablePacking};
use p3_field::extension::{BinomialExtensionField, QuinticTrinomialExtensionField};
use p3_field::{BasedVectorSpace, Field, PrimeCharacteristicRing};
use p3_koala_bear::{KoalaBear, default_koalabear_poseidon2_16};
use p3_poseidon2_circuit_air::KoalaBearD4Width16;
use rand::rngs::StdRng;
use rand::{RngExt, SeedableRng};
use serde::{Deserialize, Serialize};
use serde_json::{Value, json};

type BB = BabyBear;
type BB4 = BinomialExtensionField<BB, 4>;
type KB = KoalaBear;
type KB4 = BinomialExtensionField<KB, 4>;
type KB5 = QuinticTrinomialExtensionField<KB>;

pub const CONFIGS: [&str; 4] = ["bb_d1_alu", "bb_d4_alu", "kb_d4_npo", "kb_d5_quintic"];

#[derive(Debug, Clone, Serialize, Deserialize)]
pub struct Alter {
    pub field: String,
    pub op: String,
    #[serde(default, skip_serializing_if = "Option::is_none")]
    pub value: Option<Value>,
    #[serde(default, skip_serializing_if = "Option::is_none")]
    pub index: Option<usize>,
    #[serde(default, skip_serializing_if = "Option::is_none")]
    pub index2: Option<usize>,
}

#[derive(Debug, Clone, Serialize, Deserialize)]
pub struct Case {
    #[serde(default)]
    pub spec: Option<String>,
    pub config: String,
    pub trace: String,
    #[serde(default)]
    pub alter: Vec<Alter>,
    #[serde(default)]
    pub serde: bool,
    /// optional: which cell to change (row index) / which NPO table ("recompose" | "poseidon2")
    #[serde(default, skip_serializing_if = "Option::is_none")]
    pub cell: Option<usize>,
    #[serde(default, skip_serializing_if = "Option::is_none")]
    pub target: Option<String>,
}

fn arg(args: &[String], name: &str) -> Option<String> {
    args.iter().position(|a| a == name).and_then(|i| args.get(i + 1).cloned())
}
fn seeded(seed: u64, idx: u64) -> StdRng {
    StdRng::seed_from_u64(seed.wrapping_mul(0x9E37_79B9_7F4A_7C15).wrapping_add(idx))
}
thread_local! { static LOC: std::cell::RefCell<String> = const { std::cell::RefCell::new(String::new()) }; }
fn pmsg(p: Box<dyn std::any::Any + Send>) -> String {
    let m = p.downcast_ref::<String>().cloned().or_else(|| p.downcast_ref::<&str>().map(|s| s.to_string())).unwrap_or_else(|| "panic".into());
    let loc = LOC.with(|l| l.borrow().clone());
    let loc = loc.rsplit_once("/registry/src/").map(|x| x.1.split_once('/').map(|y| y.1.to_string()).unwrap_or_default()).unwrap_or(loc);
    format!("{} [at {loc}]", m.replace('\n', " "))
}
fn slug(s: &str) -> String {
    let t: String = s.chars().map(|c| if c.is_ascii_alphabetic() { c.to_ascii_lowercase() } else { ' ' }).collect();
    t.split_whitespace().filter(|w| *w != "panic").take(6).collect::<Vec<_>>().join("-")
}
fn short(s: &str) -> String {
    s.chars().take(160).collect()
}

// ---- set-up ------------------------------------------------------------------------------------
type ProveFn<SC, EF> = fn(&BatchStarkProver<SC>, &Traces<EF>, &CircuitProverData<SC>) -> Result<BatchStarkProof<SC>, String>;
type VerifyFn<SC> = fn(&BatchStarkProver<SC>, &BatchStarkProof<SC>) -> Result<(), String>;

pub struct Env<SC: StarkGenericConfig + 'static, EF> {
    d: usize,
    prover: BatchStarkProver<SC>,
    cpd: CircuitProverData<SC>,
    /// prover data of the SAME circuit whose per-table lookup contexts are emptied: a prover that proves no bus at all
    cpd_no_bus: CircuitProverData<SC>,
    honest: Traces<EF>,
    /// (name, prover data, honest traces) of DIFFERENT circuits of the same shape
    foreign: Vec<(&'static str, CircuitProverData<SC>, Traces<EF>)>,
    prove: ProveFn<SC, EF>,
    verify: VerifyFn<SC>,
    npo_mut: Option<fn(&mut Traces<EF>, Option<&str>, Option<usize>, &mut StdRng) -> Result<String, String>>,
}

const FOREIGN: [&str; 3] = ["const-value-3-to-4", "op-add-to-sub", "const-index-c3-to-c5"];

/// x,y,z public; s = x+y; m = s*3; ma = x*y+5; Horner chain of 4 steps from accumulator 0 (same alpha = x); w = (ma + h4 + m) * z = public `exp`.
/// variant 1: the constant 3 is 4; 2: s = x - y; 3: m = s * 5 (another constant's index).
fn alu_circuit<EF: Field + Eq + Hash>(variant: usize) -> (Circuit<EF>, Vec<EF>) {
    let g = EF::GENERATOR;
    let (xv, yv, zv) = (g, g * g + EF::ONE, g * g * g + EF::TWO);
    let c3v = if variant == 1 { EF::from_u64(4) } else { EF::from_u64(3) };
    let c5v = EF::from_u64(5);
    let mut b = CircuitBuilder::<EF>::new();
    let (x, y, z) = (b.public_input(), b.public_input(), b.public_input());
    let c3 = b.define_const(c3v);
    let c5 = b.define_const(c5v);
    let s = if variant == 2 { b.sub(x, y) } else { b.add(x, y) };
    let sv = if variant == 2 { xv - yv } else { xv + yv };
    let m = b.mul(s, if variant == 3 { c5 } else { c3 });
    let mv = sv * if variant == 3 { c5v } else { c3v };
    let ma = b.mul_add(x, y, c5);
    let mav = xv * yv + c5v;
    let zero = b.define_const(EF::ZERO);
    let h1 = b.horner_acc_step(zero, x, y, z);
    let h2 = b.horner_acc_step(h1, x, z, y);
    let h3 = b.horner_acc_step(h2, x, s, m);
    let h4 = b.horner_acc_step(h3, x, m, s);
    let h1v = yv - zv;
    let h2v = h1v * xv + zv - yv;
    let h3v = h2v * xv + sv - mv;
    let h4v = h3v * xv + mv - sv;
    let t = b.add(ma, h4);
    let o = b.add(t, m);
    let w = b.mul(o, z);
    let exp = b.public_input();
    b.connect(w, exp);
    (b.build().unwrap(), vec![xv, yv, zv, (mav + h4v + mv) * zv])
}

macro_rules! prim_env {
    ($fname:ident, $SC:ty, $cfg:path, $EF:ty, $D:literal) => {
        fn $fname(pl: usize, al: usize) -> Result<Env<$SC, $EF>, String> {
            let packing = TablePacking::new(pl, al);
            let mk_b = |variant: usize, no_bus: bool| -> Result<(CircuitProverData<$SC>, Traces<$EF>), String> {
                let (c, pubs) = alu_circuit::<$EF>(variant);
                let (ad, pc, npc) = get_airs_and_degrees_with_prep::<$SC, _, $D>(&c, &packing, &[], &[], ConstraintProfile::Standard).map_err(|e| format!("{e:?}"))?;
                let (airs, degs): (Vec<_>, Vec<usize>) = ad.into_iter().unzip();
                let mut pd = ProverData::from_airs_and_degrees(&$cfg(), &airs, &degs);
                if no_bus {
                    pd.common.lookups = vec![Default::default(); airs.len()];
                }
                let mut r = c.runner();
                r.set_public_inputs(&pubs).map_err(|e| format!("{e:?}"))?;
                let t = r.run().map_err(|e| format!("{e:?}"))?;
                Ok((CircuitProverData::new(pd, pc, npc), t))
            };
            let mk = |variant: usize| mk_b(variant, false);
            let (cpd, honest) = mk(0)?;
            let (cpd_no_bus, _) = mk_b(0, true)?;
            let mut foreign = Vec::new();
            for (i, n) in FOREIGN.iter().enumerate() {
                let (c, t) = mk(i + 1)?;
                foreign.push((*n, c, t));
            }
            Ok(Env {
                cpd_no_bus,
                d: $D,
                prover: BatchStarkProver::new($cfg()).with_table_packing(packing.clone()),
                cpd,
                honest,
                foreign,
                prove: |p, t, c| p.prove_all_tables(t, c).map_err(|e| format!("{e:?}")),
                verify: |p, pr| p.verify_all_tables::<$EF>(pr).map_err(|e| format!("{e:?}")),
                npo_mut: None,
            })
        }
    };
}
prim_env!(env_bb1, BabyBearConfig, config::baby_bear, BB, 1);
prim_env!(env_bb4, BabyBearConfig, config::baby_bear, BB4, 4);
prim_env!(env_kb5, KoalaBearConfig, config::koala_bear, KB5, 5);

/// KoalaBear D4: e = recompose(p0..p3); (o0, o1) = Poseidon2(e, c, 0, 0) exposed; o0 = public; e*e + o0 = public.
/// variant 1: the second permutation input is the constant 7 instead of 0.
fn npo_circuit(variant: usize) -> (Circuit<KB4>, Vec<KB4>) {
    use p3_symmetric::Permutation;
    let mut b = CircuitBuilder::<KB4>::new();
    b.enable_poseidon2_perm::<KoalaBearD4Width16, _>(generate_poseidon2_trace::<KB4, KoalaBearD4Width16>, default_koalabear_poseidon2_16());
    b.enable_recompose::<KB>(generate_recompose_trace::<KB, KB4>);
    let p: Vec<ExprId> = (0..4).map(|_| b.public_input()).collect();
    let e = b.recompose_base_coeffs_to_ext::<KB>(&p).unwrap();
    let zero = b.define_const(KB4::ZERO);
    let seven = b.define_const(KB4::from_u64(7));
    let second = if variant == 1 { seven } else { zero };
    let (_id, outs) = b
        .add_poseidon2_perm(&Poseidon2PermCall {
            config: Poseidon2Config::KOALA_BEAR_D4_W16,
            new_start: true,
            merkle_path: false,
            mmcs_bit: None,
            mmcs_bit2: None,
            inputs: vec![Some(e), Some(second), Some(zero), Some(zero)],
            out_ctl: vec![true, true],
            return_all_outputs: false,
            mmcs_index_sum: None,
        })
        .unwrap();
    let exp = b.public_input();
    b.connect(outs[0].unwrap(), exp);
    let sq = b.mul(e, e);
    let sum = b.add(sq, outs[0].unwrap());
    let t = b.mul(sum, seven);
    let exp2 = b.public_input();
    b.connect(t, exp2);
    let coeffs = [KB::from_u64(1), KB::from_u64(2), KB::from_u64(3), KB::from_u64(4)];
    let mut st = [KB::ZERO; 16];
    st[..4].copy_from_slice(&coeffs);
    if variant == 1 {
        st[4] = KB::from_u64(7);
    }
    let o = default_koalabear_poseidon2_16().permute(st);
    let o0 = KB4::from_basis_coefficients_slice(&o[..4]).unwrap();
    let ev = KB4::from_basis_coefficients_slice(&coeffs).unwrap();
    let mut pubs: Vec<KB4> = coeffs.iter().map(|&c| KB4::from(c)).collect();
    pubs.push(o0);
    pubs.push((ev * ev + o0) * KB4::from_u64(7));
    (b.build().unwrap(), pubs)
}

/// `cell = row * 64 + j` selects the cell (j < 32: input value j; j = 32: mmcs_index_sum) - used by the C04 sweep; `None`: random.
fn kb_npo_mut(t: &mut Traces<KB4>, target: Option<&str>, cell: Option<usize>, rng: &mut StdRng) -> Result<String, String> {
    let rec = match target {
        Some("recompose") => true,
        Some("poseidon2") => false,
        _ => rng.random::<bool>(),
    };
    if rec {
        let id = NpoTypeId::recompose();
        let mut tr: RecomposeTrace<KB> = t.non_primitive_trace::<RecomposeTrace<KB>>(&id).ok_or("no recompose trace (downcast failed)")?.clone();
        let (r, j) = match cell {
            Some(c) => (c / 64, c % 64),
            None => (rng.random_range(0..tr.operations.len()), rng.random_range(0..4usize)),
        };
        if r >= tr.operations.len() || j >= tr.operations[r].values.len() {
            return Err("no such recompose cell".into());
        }
        tr.operations[r].values[j] += KB::ONE;
        t.non_primitive_traces.insert(id, Box::new(tr));
        Ok(format!("recompose row {r} coefficient {j} += 1"))
    } else {
        let id = NpoTypeId::poseidon2_perm(Poseidon2Config::KOALA_BEAR_D4_W16);
        let mut tr: Poseidon2Trace<KB> = t.non_primitive_trace::<Poseidon2Trace<KB>>(&id).ok_or("no poseidon2 trace (downcast failed)")?.clone();
        let (r, j) = match cell {
            Some(c) => (c / 64, c % 64),
            None => {
                let r = rng.random_range(0..tr.operations.len());
                (r, rng.random_range(0..tr.operations[r].input_values.len().min(8)))
            }
        };
        if r >= tr.operations.len() {
            return Err("no such poseidon2 row".into());
        }
        if j == 32 {
            tr.operations[r].mmcs_index_sum += KB::ONE;
        } else if j < tr.operations[r].input_values.len() {
            tr.operations[r].input_values[j] += KB::ONE;
        } else {
            return Err("no such poseidon2 cell".into());
        }
        t.non_primitive_traces.insert(id, Box::new(tr));
        Ok(format!("poseidon2 row {r} cell {j} += 1"))
    }
}

fn env_kb4() -> Result<Env<KoalaBearConfig, KB4>, String> {
    let packing = TablePacking::new(1, 1);
    let mk_b = |variant: usize, no_bus: bool| -> Result<(CircuitProverData<KoalaBearConfig>, Traces<KB4>), String> {
        let (c, pubs) = npo_circuit(variant);
        let npo_prep: Vec<Box<dyn NpoPreprocessor<KB>>> = vec![Box::new(Poseidon2Preprocessor), Box::new(RecomposePreprocessor::default())];
        let mut air_builders = poseidon2_air_builders::<_, 4>();
        air_builders.extend(recompose_air_builders(1, false));
        let (ad, pc, npc) = get_airs_and_degrees_with_prep::<KoalaBearConfig, _, 4>(&c, &packing, &npo_prep, &air_builders, ConstraintProfile::Standard).map_err(|e| format!("{e:?}"))?;
        let (airs, degs): (Vec<_>, Vec<usize>) = ad.into_iter().unzip();
        let mut pd = ProverData::from_airs_and_degrees(&config::koala_bear(), &airs, &degs);
        if no_bus {
            pd.common.lookups = vec![Default::default(); airs.len()];
        }
        let mut r = c.runner();
        r.set_public_inputs(&pubs).map_err(|e| format!("{e:?}"))?;
        let t = r.run().map_err(|e| format!("{e:?}"))?;
        Ok((CircuitProverData::new(pd, pc, npc), t))
    };
    let mk = |variant: usize| mk_b(variant, false);
    let (cpd, honest) = mk(0)?;
    let (cpd_no_bus, _) = mk_b(0, true)?;
    let (fc, ft) = mk(1)?;
    let mut prover = BatchStarkProver::new(config::koala_bear()).with_table_packing(packing.clone());
    prover.register_poseidon2_table::<4>(Poseidon2Config::KOALA_BEAR_D4_W16);
    prover.register_recompose_table::<4>(false);
    Ok(Env {
        cpd_no_bus,
        d: 4,
        prover,
        cpd,
        honest,
        foreign: vec![("perm-input-const-0-to-7", fc, ft)],
        prove: |p, t, c| p.prove_all_tables(t, c).map_err(|e| format!("{e:?}")),
        verify: |p, pr| p.verify_all_tables::<KB4>(pr).map_err(|e| format!("{e:?}")),
        npo_mut: Some(kb_npo_mut),
    })
}

// ---- alterations -------------------------------------------------------------------------------
fn num_op(cur: usize, a: &Alter) -> Result<usize, String> {
    Ok(match a.op.as_str() {
        "inc" => cur + 1,
        "dec" => cur.checked_sub(1).ok_or("dec of 0")?,
        "double" => cur * 2,
        "halve" => cur / 2,
        "zero" => 0,
        "set" => a.value.as_ref().and_then(|v| v.as_u64()).ok_or("set needs a numeric value")? as usize,
        o => return Err(format!("unknown numeric op {o}")),
    })
}

fn clone_common<SC: StarkGenericConfig>(c: &CommonData<SC>) -> CommonData<SC> {
    CommonData::new(
        c.preprocessed.as_ref().map(|g| GlobalPreprocessed { commitment: g.commitment.clone(), instances: g.instances.clone(), matrix_to_instance: g.matrix_to_instance.clone() }),
        c.lookups.clone(),
    )
}

/// first number found in a JSON value += 1
fn bump_first_number(v: &mut Value) -> bool {
    match v {
        Value::Number(n) => {
            *v = json!(n.as_u64().unwrap_or(0) + 1);
            true
        }
        Value::Array(a) => a.iter_mut().any(bump_first_number),
        Value::Object(o) => o.values_mut().any(bump_first_number),
        _ => false,
    }
}

fn other_variant(v: AirVariant) -> AirVariant {
    if v == AirVariant::Baseline { AirVariant::Optimized } else { AirVariant::Baseline }
}

/// Apply one alteration; `Ok(description)` or `Err(reason it is inapplicable)`.
fn apply<SC: StarkGenericConfig + 'static, EF>(env: &Env<SC, EF>, proof: &mut BatchStarkProof<SC>, a: &Alter) -> Result<String, String> {
    let f = a.field.as_str();
    if f == "ext_degree" {
        let n = num_op(proof.ext_degree, a)?;
        let d = format!("ext_degree {} -> {n}", proof.ext_degree);
        proof.ext_degree = n;
        return Ok(d);
    }
    if f == "w_binomial" {
        let old = proof.w_binomial;
        proof.w_binomial = match a.op.as_str() {
            "none" => None,
            "other" => Some(old.map(|w| w + Val::<SC>::ONE).unwrap_or(Val::<SC>::from_u64(3))),
            "set" => Some(Val::<SC>::from_u64(a.value.as_ref().and_then(|v| v.as_u64()).ok_or("set needs a value")?)),
            o => return Err(format!("unknown op {o}")),
        };
        return Ok(format!("w_binomial {:?} -> {:?}", old, proof.w_binomial));
    }
    if f == "alu_quintic_trinomial" {
        proof.alu_quintic_trinomial = !proof.alu_quintic_trinomial;
        return Ok(format!("alu_quintic_trinomial -> {}", proof.alu_quintic_trinomial));
    }
    if let Some(sub) = f.strip_prefix("table_packing.") {
        // private fields: alter the serde representation
        let mut v = serde_json::to_value(&proof.table_packing).map_err(|e| e.to_string())?;
        let d;
        if sub == "npo_lanes" {
            let i = a.index.unwrap_or(0);
            let ty = proof.non_primitives.get(i).map(|e| e.op_type.as_str().to_string()).or_else(|| a.value.as_ref().and_then(|v| v.get("op_type")).and_then(|s| s.as_str()).map(String::from)).ok_or("no NPO table")?;
            let lanes = a.value.as_ref().and_then(|v| v.as_u64()).unwrap_or(2);
            v["npo_lanes"].as_array_mut().ok_or("npo_lanes")?.push(json!([ty, lanes]));
            d = format!("table_packing.npo_lanes += ({ty}, {lanes})");
        } else {
            let cur = v.get(sub).and_then(|x| x.as_u64()).ok_or_else(|| format!("no TablePacking field {sub}"))? as usize;
            let n = num_op(cur, a)?;
            v[sub] = json!(n);
            d = format!("table_packing.{sub} {cur} -> {n}");
        }
        proof.table_packing = serde_json::from_value(v).map_err(|e| e.to_string())?;
        return Ok(d);
    }
    if let Some(sub) = f.strip_prefix("rows.") {
        let i = match sub {
            "const" => 0,
            "public" => 1,
            "alu" => 2,
            _ => return Err(format!("no row count {sub}")),
        };
        let mut v = serde_json::to_value(&proof.rows).map_err(|e| e.to_string())?;
        let cur = v[i].as_u64().ok_or("rows repr")? as usize;
        let n = num_op(cur, a)?;
        v[i] = json!(n);
        proof.rows = serde_json::from_value(v).map_err(|e| e.to_string())?;
        return Ok(format!("rows.{sub} {cur} -> {n}"));
    }
    if f == "alu_variant" {
        proof.alu_variant = other_variant(proof.alu_variant);
        return Ok(format!("alu_variant -> {:?}", proof.alu_variant));
    }
    if f == "non_primitives" {
        let n = proof.non_primitives.len();
        let i = a.index.unwrap_or(0);
        match a.op.as_str() {
            "swap" => {
                let j = a.index2.unwrap_or(1);
                if i >= n || j >= n || i == j {
                    return Err("needs two entries".into());
                }
                proof.non_primitives.swap(i, j);
                return Ok(format!("non_primitives swap {i} <-> {j}"));
            }
            "drop" => {
                if i >= n {
                    return Err("no such entry".into());
                }
                let e = proof.non_primitives.remove(i);
                return Ok(format!("non_primitives drop {i} ({})", e.op_type.as_str()));
            }
            "duplicate" => {
                if i >= n {
                    return Err("no such entry".into());
                }
                let e = &proof.non_primitives[i];
                let c = NonPrimitiveTableEntry { op_type: e.op_type.clone(), rows: e.rows, lanes: e.lanes, public_values: e.public_values.clone(), air_variant: e.air_variant };
                proof.non_primitives.insert(i + 1, c);
                return Ok(format!("non_primitives duplicate {i}"));
            }
            "add" => {
                let ty = a.value.as_ref().and_then(|v| v.as_str()).unwrap_or("recompose").to_string();
                proof.non_primitives.push(NonPrimitiveTableEntry { op_type: NpoTypeId::new(ty.clone()), rows: 1, lanes: 1, public_values: vec![], air_variant: AirVariant::Baseline });
                return Ok(format!("non_primitives add ({ty}, rows 1)"));
            }
            o => return Err(format!("unknown op {o}")),
        }
    }
    if let Some(sub) = f.strip_prefix("non_primitives.") {
        let i = a.index.unwrap_or(0);
        let n = proof.non_primitives.len();
        let other_ty = if n > 1 { Some(proof.non_primitives[(i + 1) % n].op_type.clone()) } else { None };
        let e = proof.non_primitives.get_mut(i).ok_or("no such NPO entry")?;
        return match sub {
            "rows" => {
                let n = num_op(e.rows, a)?;
                let d = format!("non_primitives[{i}].rows {} -> {n}", e.rows);
                e.rows = n;
                Ok(d)
            }
            "lanes" => {
                let n = num_op(e.lanes, a)?;
                let d = format!("non_primitives[{i}].lanes {} -> {n}", e.lanes);
                e.lanes = n;
                Ok(d)
            }
            "op_type" => {
                let ty = match a.op.as_str() {
                    "other" => other_ty.ok_or("no other entry")?,
                    "unknown" => NpoTypeId::new("unknown/op"),
                    _ => NpoTypeId::new(a.value.as_ref().and_then(|v| v.as_str()).ok_or("set needs a string")?),
                };
                let d = format!("non_primitives[{i}].op_type {} -> {}", e.op_type.as_str(), ty.as_str());
                e.op_type = ty;
                Ok(d)
            }
            "air_variant" => {
                e.air_variant = other_variant(e.air_variant);
                Ok(format!("non_primitives[{i}].air_variant -> {:?}", e.air_variant))
            }
            "public_values" => match a.op.as_str() {
                "push" => {
                    e.public_values.push(Val::<SC>::from_u64(a.value.as_ref().and_then(|v| v.as_u64()).unwrap_or(1)));
                    Ok(format!("non_primitives[{i}].public_values push (len {})", e.public_values.len()))
                }
                "pop" => e.public_values.pop().map(|_| format!("non_primitives[{i}].public_values pop")).ok_or("empty".into()),
                "inc" => {
                    let v = e.public_values.first_mut().ok_or("empty")?;
                    *v += Val::<SC>::ONE;
                    Ok(format!("non_primitives[{i}].public_values[0] += 1"))
                }
                o => Err(format!("unknown op {o}")),
            },
            _ => Err(format!("no NPO entry field {sub}")),
        };
    }
    if f == "stark_common" {
        return match a.op.as_str() {
            "foreign" => {
                let want = a.value.as_ref().and_then(|v| v.as_str());
                let (name, fc, _) = env.foreign.iter().find(|(n, _, _)| want.is_none_or(|w| w == *n)).ok_or("no such foreign circuit")?;
                proof.stark_common = clone_common(&fc.prover_data.common);
                Ok(format!("stark_common := common data of circuit variant {name}"))
            }
            "none" => {
                proof.stark_common = CommonData::new(None, Vec::new());
                Ok("stark_common.preprocessed := None".into())
            }
            o => Err(format!("unknown op {o}")),
        };
    }
    if f == "stark_common.lookups" {
        // the per-table lookup contexts the proof was proven against; `verify_all_tables` derives its own from the AIRs
        let n = proof.stark_common.lookups.len();
        return match a.op.as_str() {
            "empty_all" => {
                proof.stark_common.lookups = vec![Default::default(); n];
                Ok(format!("stark_common.lookups := {n} empty contexts"))
            }
            "pop" => proof.stark_common.lookups.pop().map(|_| "stark_common.lookups pop".to_string()).ok_or("empty".into()),
            "clear" => {
                proof.stark_common.lookups.clear();
                Ok("stark_common.lookups := []".into())
            }
            o => Err(format!("unknown op {o}")),
        };
    }
    if let Some(sub) = f.strip_prefix("stark_common.") {
        let g = proof.stark_common.preprocessed.as_mut().ok_or("no preprocessed data")?;
        let i = a.index.unwrap_or(0);
        return match sub {
            "preprocessed_commitment" => {
                let mut v = serde_json::to_value(&g.commitment).map_err(|e| e.to_string())?;
                if !bump_first_number(&mut v) {
                    return Err("no word in commitment".into());
                }
                g.commitment = serde_json::from_value(v).map_err(|e| e.to_string())?;
                Ok("stark_common.preprocessed.commitment word 0 += 1".into())
            }
            "degree_bits" | "width" | "matrix_index" => {
                let m = g.instances.get_mut(i).and_then(|m| m.as_mut()).ok_or("no such instance meta")?;
                let r = match sub {
                    "degree_bits" => &mut m.degree_bits,
                    "width" => &mut m.width,
                    _ => &mut m.matrix_index,
                };
                let n = num_op(*r, a)?;
                let d = format!("stark_common.instances[{i}].{sub} {} -> {n}", *r);
                *r = n;
                Ok(d)
            }
            "instances" => match a.op.as_str() {
                "none" => {
                    *g.instances.get_mut(i).ok_or("no such instance")? = None;
                    Ok(format!("stark_common.instances[{i}] := None"))
                }
                "pop" => g.instances.pop().map(|_| "stark_common.instances pop".to_string()).ok_or("empty".into()),
                o => Err(format!("unknown op {o}")),
            },
            "matrix_to_instance" => {
                let j = a.index2.unwrap_or(i + 1);
                if i >= g.matrix_to_instance.len() || j >= g.matrix_to_instance.len() {
                    return Err("index".into());
                }
                g.matrix_to_instance.swap(i, j);
                Ok(format!("stark_common.matrix_to_instance swap {i} <-> {j}"))
            }
            _ => Err(format!("no stark_common field {sub}")),
        };
    }
    Err(format!("unknown field {f}"))
}

// ---- one case ----------------------------------------------------------------------------------
#[derive(Default)]
pub struct Outcome {
    pub class: String,
    pub cover: Option<(String, String, String)>, // (key, verdict, reason)
    pub findings: Vec<(String, String, Value)>,  // (kind, signature, detail)
    pub error: Option<String>,
    pub sample: Option<Value>,
}

fn vclass(v: &Result<(), String>) -> &'static str {
    match v {
        Ok(()) => "accept",
        Err(e) if e.starts_with("PANIC") => "panic",
        Err(_) => "reject",
    }
}

fn bump_cell<EF: Field>(vals: &mut [EF], mults: Option<&[usize]>, cell: Option<usize>, rng: &mut StdRng) -> Result<usize, String> {
    let elig: Vec<usize> = match mults {
        Some(m) => m.to_vec(),
        None => (0..vals.len()).collect(),
    };
    if elig.is_empty() {
        return Err("no eligible cell".into());
    }
    let i = cell.filter(|c| *c < vals.len()).unwrap_or_else(|| elig[rng.random_range(0..elig.len())]);
    vals[i] += EF::ONE;
    Ok(i)
}

/// rows of a `[mult, index]` 2-column preprocessed table whose multiplicity is non-zero (value is read by someone)
fn read_rows<F: Field>(prep: &[F], rows: usize) -> Vec<usize> {
    (0..rows).filter(|r| prep.get(2 * r).is_some_and(|m| !m.is_zero())).collect()
}

pub fn run_case<SC, EF>(env: &Env<SC, EF>, case: &Case, rng: &mut StdRng) -> Outcome
where
    SC: StarkGenericConfig + 'static,
    EF: Field,
    BatchStarkProof<SC>: Serialize + for<'de> Deserialize<'de>,
{
    let mut o = Outcome::default();
    let alt_key = if case.alter.is_empty() { "-".to_string() } else { case.alter.iter().map(|a| format!("{}{}:{}{}", a.field, a.index.map(|i| format!("[{i}]")).unwrap_or_default(), a.op, a.value.as_ref().map(|v| format!("={v}")).unwrap_or_default())).collect::<Vec<_>>().join("&") };
    let fields = if case.alter.is_empty() { "none".to_string() } else { case.alter.iter().map(|a| a.field.replace('_', "-")).collect::<Vec<_>>().join("&") };
    let tkind = case.trace.split(':').next().unwrap_or("").to_string();
    let shape = format!("{}+{}+{}+serde{}", case.config.replace('_', "-"), tkind.replace('_', "-"), fields, case.serde as u8);
    // 1. the trace
    let mut traces = env.honest.clone();
    let mut cpd = &env.cpd;
    let mut what = String::new();
    let r: Result<(), String> = (|| {
        match tkind.as_str() {
            "honest" => {}
            "invalid_alu_cell" => {
                let elig: Vec<usize> = traces.alu_trace.op_kind.iter().enumerate().filter(|(_, k)| **k != AluOpKind::HornerAcc).map(|(i, _)| i).collect();
                if elig.is_empty() {
                    return Err("no eligible ALU row".into());
                }
                let i = case.cell.filter(|c| *c < traces.alu_trace.values.len()).unwrap_or_else(|| elig[rng.random_range(0..elig.len())]);
                traces.alu_trace.values[i][3] += EF::ONE;
                what = format!("ALU row {i} ({:?}) out += 1", traces.alu_trace.op_kind[i]);
            }
            "invalid_const" => {
                let n = traces.const_trace.values.len();
                let e = read_rows(&env.cpd.primitive_columns[0], n);
                let i = bump_cell(&mut traces.const_trace.values, Some(&e), case.cell, rng)?;
                what = format!("Const row {i} value += 1");
            }
            "invalid_public_cell" => {
                let n = traces.public_trace.values.len();
                let e = read_rows(&env.cpd.primitive_columns[1], n);
                let i = bump_cell(&mut traces.public_trace.values, Some(&e), case.cell, rng)?;
                what = format!("Public row {i} value += 1");
            }
            "invalid_public_cell_unchecked_bus" => {
                // only the witness bus is violated, and the prover proves no bus at all (its lookup contexts are empty, and so
                // are those of the proof's stark_common): the verifier must derive the bus from the AIRs it rebuilds
                let n = traces.public_trace.values.len();
                let e = read_rows(&env.cpd.primitive_columns[1], n);
                let i = bump_cell(&mut traces.public_trace.values, Some(&e), case.cell, rng)?;
                cpd = &env.cpd_no_bus;
                what = format!("Public row {i} value += 1, proven with emptied lookup contexts");
            }
            "invalid_npo" => {
                let m = env.npo_mut.ok_or("configuration has no non-primitive table")?;
                what = m(&mut traces, case.target.as_deref(), case.cell, rng)?;
            }
            "foreign_circuit" => {
                let want = case.trace.split_once(':').map(|x| x.1);
                let (n, fc, ft) = env.foreign.iter().find(|(n, _, _)| want.is_none_or(|w| w == *n)).ok_or("no such foreign circuit")?;
                traces = ft.clone();
                cpd = fc;
                what = format!("honest execution of circuit variant {n}, proven with THAT circuit's prover data");
            }
            k => return Err(format!("unknown trace kind {k}")),
        }
        Ok(())
    })();
    if let Err(e) = r {
        o.class = "skipped_trace_inapplicable".into();
        o.error = Some(format!("{}/{}: {e}", case.config, case.trace));
        return o;
    }
    // 2. prove
    let proved = catch_unwind(AssertUnwindSafe(|| (env.prove)(&env.prover, &traces, cpd))).unwrap_or_else(|p| Err(format!("PANIC {}", pmsg(p))));
    let mut proof = match proved {
        Ok(p) => p,
        Err(e) => {
            o.class = "prove_failed".into();
            if tkind == "honest" {
                o.error = Some(format!("honest proof failed for {}: {e}", case.config));
            }
            o.cover = Some((format!("{}|{}|prove", case.config, tkind), "prove_failed".into(), short(&e)));
            return o;
        }
    };
    let verify = |p: &BatchStarkProof<SC>| -> Result<(), String> { catch_unwind(AssertUnwindSafe(|| (env.verify)(&env.prover, p))).unwrap_or_else(|p| Err(format!("PANIC {}", pmsg(p)))) };
    let example = |extra: Value| json!({"case": case, "trace_change": what, "detail": extra});
    // 3. baseline
    let base = verify(&proof);
    let (exp_d, exp_w, exp_q) = (env.d, proof.w_binomial, proof.alu_quintic_trinomial);
    match (tkind.as_str(), vclass(&base)) {
        ("honest", "accept") => {}
        ("honest", _) => {
            o.class = "honest_rejected".into();
            o.error = Some(format!("honest proof of {} rejected: {base:?}", case.config));
            return o;
        }
        ("foreign_circuit", "accept") if case.alter.is_empty() && !case.serde => {
            o.class = "foreign_circuit_accepted".into();
            o.findings.push(("foreign-common-data-accepted".into(), format!("foreign-common-data-accepted@{shape}"), example(json!({"verdict": "accept",
                "meaning": "a proof produced for a different circuit (own preprocessed commitment in proof.stark_common) is accepted by verify_all_tables: the only circuit-specific verifying data is taken from the proof itself"}))));
            return o;
        }
        ("foreign_circuit", _) => {}
        (_, "accept") => {
            o.class = "invalid_baseline_accepted".into();
            o.findings.push(("invalid-trace-accepted-without-alteration".into(), format!("invalid-trace-accepted-without-alteration@{}+{}", case.config.replace('_', "-"), tkind.replace('_', "-")), example(json!({}))));
            return o;
        }
        (_, "panic") => {
            o.class = "baseline_panic".into();
            o.findings.push(("verify-panics-on-metadata".into(), format!("verify-panics-on-metadata@{}+{}+unaltered", case.config.replace('_', "-"), tkind.replace('_', "-")), example(json!({"verdict": base.clone().err()}))));
            return o;
        }
        _ => {}
    }
    // 4. alterations
    let meta = |p: &BatchStarkProof<SC>| {
        let mut v = serde_json::to_value(p).unwrap_or(Value::Null);
        if let Some(m) = v.as_object_mut() {
            m.remove("proof");
        }
        v
    };
    let before = meta(&proof);
    let mut descs = Vec::new();
    for a in &case.alter {
        match catch_unwind(AssertUnwindSafe(|| apply(env, &mut proof, a))).unwrap_or_else(|p| Err(format!("driver panic {}", pmsg(p)))) {
            Ok(d) => descs.push(d),
            Err(e) => {
                o.class = "skipped_alteration_inapplicable".into();
                o.cover = Some((format!("{}|{}|{}", case.config, tkind, alt_key), "inapplicable".into(), e));
                return o;
            }
        }
    }
    let noop = !case.alter.is_empty() && meta(&proof) == before;
    let v1 = verify(&proof);
    let c1 = vclass(&v1);
    let reason = v1.clone().err().map(|e| short(&e)).unwrap_or_default();
    o.class = format!("{}:{}{}", if tkind == "honest" { "honest" } else if tkind == "foreign_circuit" { "foreign" } else { "invalid" }, c1, if noop { ":noop" } else { "" });
    o.cover = Some((format!("{}|{}|{}", case.config, tkind, alt_key), c1.into(), reason.clone()));
    let ex = |extra: Value| example(json!({"alterations": descs, "verdict": c1, "reason": reason, "baseline": vclass(&base), "more": extra}));
    if c1 == "panic" {
        o.findings.push(("verify-panics-on-metadata".into(), format!("verify-panics-on-metadata@{shape}+{}", slug(&reason)), ex(json!({}))));
    }
    if c1 == "accept" {
        if tkind != "honest" {
            let k = if tkind == "foreign_circuit" { "foreign-common-data-accepted" } else { "metadata-rescues-invalid-trace" };
            o.findings.push((k.into(), format!("{k}@{shape}"), ex(json!({}))));
        }
        if proof.ext_degree != exp_d || proof.w_binomial != exp_w || proof.alu_quintic_trinomial != exp_q {
            o.findings.push(("contradicting-field-parameters-accepted".into(), format!("contradicting-field-parameters-accepted@{shape}"), ex(json!({"expected": {"ext_degree": exp_d, "w_binomial": format!("{exp_w:?}"), "quintic": exp_q}}))));
        }
        if tkind == "honest" && case.alter.iter().any(|a| a.field == "stark_common" && a.op == "foreign") {
            // identical metadata: the other circuit has the SAME preprocessed commitment (the commitment does not bind the difference)
            let same = case.alter.len() == 1 && noop;
            let k = if same { "foreign-circuit-has-identical-common-data" } else { "foreign-common-data-accepted" };
            o.findings.push((k.into(), format!("{k}@{shape}"), ex(json!({"metadata_unchanged_by_the_swap": noop}))));
        }
    }
    // 5. serde round trip
    if case.serde {
        let rt: Result<BatchStarkProof<SC>, String> = catch_unwind(AssertUnwindSafe(|| {
            let s = serde_json::to_string(&proof).map_err(|e| format!("serialize: {e}"))?;
            serde_json::from_str::<BatchStarkProof<SC>>(&s).map_err(|e| format!("deserialize: {e}"))
        }))
        .unwrap_or_else(|p| Err(format!("PANIC {}", pmsg(p))));
        match rt {
            Err(e) => {
                o.class += "+serde_fails";
                o.findings.push(("serde-roundtrip-fails".into(), format!("serde-roundtrip-fails@{shape}"), ex(json!({"serde_error": e}))));
            }
            Ok(p2) => {
                let v2 = verify(&p2);
                let same_meta = meta(&p2) == meta(&proof);
                if vclass(&v2) != c1 {
                    o.class += "+serde_differs";
                    o.findings.push(("serde-roundtrip-changes-verdict".into(), format!("serde-roundtrip-changes-verdict@{shape}"), ex(json!({"after_roundtrip": vclass(&v2), "reason_after": v2.err(), "metadata_identical": same_meta}))));
                } else {
                    o.class += "+serde_same";
                    if !same_meta {
                        o.class += "_meta_differs";
                    }
                }
            }
        }
    }
    if rng.random_range(0..400u32) == 0 {
        o.sample = Some(json!({"case": case, "trace_change": what, "alterations": descs, "baseline": vclass(&base), "verdict": c1, "reason": reason}));
    }
    o
}

// ---- commands ----------------------------------------------------------------------------------
struct Envs {
    bb1: Result<Env<BabyBearConfig, BB>, String>,
    bb4: Result<Env<BabyBearConfig, BB4>, String>,
    kb4: Result<Env<KoalaBearConfig, KB4>, String>,
    kb5: Result<Env<KoalaBearConfig, KB5>, String>,
}
fn guard<T>(f: impl FnOnce() -> Result<T, String>) -> Result<T, String> {
    catch_unwind(AssertUnwindSafe(f)).unwrap_or_else(|p| Err(format!("PANIC in set-up: {}", pmsg(p))))
}
impl Envs {
    fn new() -> Self {
        Envs { bb1: guard(|| env_bb1(1, 1)), bb4: guard(|| env_bb4(2, 2)), kb4: guard(env_kb4), kb5: guard(|| env_kb5(1, 1)) }
    }
    fn run(&self, case: &Case, rng: &mut StdRng) -> Outcome {
        fn go<SC: StarkGenericConfig + 'static, EF: Field>(e: &Result<Env<SC, EF>, String>, case: &Case, rng: &mut StdRng) -> Outcome
        where
            BatchStarkProof<SC>: Serialize + for<'de> Deserialize<'de>,
        {
            match e {
                Ok(env) => catch_unwind(AssertUnwindSafe(|| run_case(env, case, &mut *rng))).unwrap_or_else(|p| Outcome { class: "driver_panic".into(), error: Some(format!("driver panic: {}", pmsg(p))), ..Default::default() }),
                Err(m) => Outcome { class: "skipped_setup_failed".into(), error: Some(format!("{}: {m}", case.config)), ..Default::default() },
            }
        }
        match case.config.as_str() {
            "bb_d1_alu" => go(&self.bb1, case, rng),
            "bb_d4_alu" => go(&self.bb4, case, rng),
            "kb_d4_npo" => go(&self.kb4, case, rng),
            "kb_d5_quintic" => go(&self.kb5, case, rng),
            c => Outcome { class: "skipped_unknown_config".into(), error: Some(format!("unknown config {c}")), ..Default::default() },
        }
    }
}

pub fn cmd(args: &[String]) -> i32 {
    let input = arg(args, "--in").expect("--in");
    let seed: u64 = arg(args, "--seed").and_then(|s| s.parse().ok()).unwrap_or(1);
    let outp = arg(args, "--out").expect("--out");
    let threads: usize = arg(args, "--threads").and_then(|s| s.parse().ok()).unwrap_or(16);
    let f = std::fs::File::open(&input).expect("open input");
    let lines: Vec<String> = BufReader::new(f).lines().map(|l| l.unwrap()).filter(|l| !l.trim().is_empty()).collect();
    // silent hook that remembers where the code under test panicked
    std::panic::set_hook(Box::new(|info| LOC.with(|l| *l.borrow_mut() = info.location().map(|l| format!("{}:{}", l.file(), l.line())).unwrap_or_default())));
    #[derive(Default)]
    struct Acc {
        stats: BTreeMap<String, u64>,
        cover: BTreeMap<String, BTreeMap<String, (u64, String)>>,
        groups: BTreeMap<(String, String), (u64, Value)>,
        errors: Vec<String>,
        samples: Vec<Value>,
    }
    let acc = Mutex::new(Acc::default());
    let next = std::sync::atomic::AtomicUsize::new(0);
    std::thread::scope(|sc| {
        for _ in 0..threads.max(1) {
            let (acc, next, lines) = (&acc, &next, &lines);
            sc.spawn(move || {
                let envs = Envs::new();
                let mut a = Acc::default();
                loop {
                    let gidx = next.fetch_add(1, std::sync::atomic::Ordering::Relaxed);
                    let Some(line) = lines.get(gidx) else { break };
                    let case: Case = match serde_json::from_str(line) {
                        Ok(c) => c,
                        Err(e) => {
                            *a.stats.entry("bad_lines".into()).or_default() += 1;
                            a.errors.push(format!("bad case line {gidx}: {e}"));
                            continue;
                        }
                    };
                    let mut rng = seeded(seed, gidx as u64);
                    let o = envs.run(&case, &mut rng);
                    *a.stats.entry("cases".into()).or_default() += 1;
                    *a.stats.entry(o.class.clone()).or_default() += 1;
                    if let Some((k, v, why)) = o.cover {
                        let e = a.cover.entry(k).or_default().entry(v).or_insert((0, why));
                        e.0 += 1;
                    }
                    for (kind, sig, detail) in o.findings {
                        a.groups.entry((kind, sig)).or_insert((0, detail)).0 += 1;
                    }
                    if let Some(e) = o.error {
                        if a.errors.len() < 40 && !a.errors.contains(&e) {
                            a.errors.push(e);
                        }
                    }
                    if let Some(s) = o.sample {
                        if a.samples.len() < 2 {
                            a.samples.push(s);
                        }
                    }
                }
                let mut g = acc.lock().unwrap();
                for (k, v) in a.stats {
                    *g.stats.entry(k).or_default() += v;
                }
                for (k, m) in a.cover {
                    let e = g.cover.entry(k).or_default();
                    for (c, (n, why)) in m {
                        e.entry(c).or_insert((0, why)).0 += n;
                    }
                }
                for (k, (n, d)) in a.groups {
                    g.groups.entry(k).or_insert((0, d)).0 += n;
                }
                for e in a.errors {
                    if g.errors.len() < 60 && !g.errors.contains(&e) {
                        g.errors.push(e);
                    }
                }
                g.samples.extend(a.samples);
            });
        }
    });
    let g = acc.into_inner().unwrap();
    // C16 speaks about acceptance only.  A verifier panic on metadata is a refusal; a foreign circuit whose verifying data
    // coincides with (or is taken from) the proof is not an alteration that rescues an invalid trace.  Both are recorded as
    // observations (property "C16-observation"), not as violations of C16.
    let obs = ["verify-panics-on-metadata", "foreign-common-data-accepted", "foreign-circuit-has-identical-common-data"];
    let mut merged: BTreeMap<(String, String), (u64, Value)> = BTreeMap::new();
    for ((kind, sig), (n, ex)) in g.groups.iter() {
        let sig2 = if obs.contains(&kind.as_str()) {
            // observations: configuration + altered fields only
            let shape = sig.split_once('@').map(|x| x.1).unwrap_or("");
            let parts: Vec<&str> = shape.split('+').collect();
            format!("{kind}@{}+{}", parts.first().copied().unwrap_or(""), parts.get(2).copied().unwrap_or(""))
        } else {
            sig.clone()
        };
        let e = merged.entry((kind.clone(), sig2)).or_insert((0, ex.clone()));
        e.0 += n;
    }
    let findings: Vec<Value> = merged.iter().map(|((kind, sig), (n, ex))| json!({"property": if obs.contains(&kind.as_str()) { "C16-observation" } else { "C16" }, "kind": kind, "signature": sig, "count": n, "example": ex})).collect();
    let cover: BTreeMap<&String, Value> = g.cover.iter().map(|(k, m)| (k, json!(m.iter().map(|(v, (n, why))| (v.clone(), json!({"n": n, "why": why}))).collect::<BTreeMap<_, _>>()))).collect();
    let res = json!({"stats": g.stats, "serializer": "serde_json", "findings": findings, "cover": cover, "samples": g.samples, "errors": g.errors});
    std::fs::write(&outp, serde_json::to_string_pretty(&res).unwrap()).unwrap();
    eprintln!("metadata: {} cases, {} finding groups -> {outp}", g.stats.get("cases").copied().unwrap_or(0), findings.len());
    0
}

fn al(field: &str, op: &str) -> Alter {
    Alter { field: field.into(), op: op.into(), value: None, index: None, index2: None }
}
fn alv(field: &str, op: &str, v: Value) -> Alter {
    Alter { value: Some(v), ..al(field, op) }
}
fn ali(field: &str, op: &str, i: usize) -> Alter {
    Alter { index: Some(i), ..al(field, op) }
}

/// All single alterations meaningful for a configuration (driver self-test; the TLA+ cases come from the model).
pub fn singles(config: &str) -> Vec<Alter> {
    let d = match config {
        "bb_d1_alu" => 1,
        "kb_d5_quintic" => 5,
        _ => 4,
    };
    let mut v = Vec::new();
    for n in [1usize, 2, 3, 4, 5, 6, 8] {
        if n != d {
            v.push(alv("ext_degree", "set", json!(n)));
        }
    }
    v.extend([al("w_binomial", "none"), al("w_binomial", "other"), alv("w_binomial", "set", json!(3)), al("alu_quintic_trinomial", "toggle")]);
    for f in ["alu_lanes", "public_lanes"] {
        v.extend([al(&format!("table_packing.{f}"), "inc"), al(&format!("table_packing.{f}"), "dec"), al(&format!("table_packing.{f}"), "double"), alv(&format!("table_packing.{f}"), "set", json!(4)), al(&format!("table_packing.{f}"), "zero")]);
    }
    v.extend([al("table_packing.horner_packed_steps", "inc"), al("table_packing.horner_packed_steps", "dec"), al("table_packing.horner_packed_steps", "double"), alv("table_packing.horner_packed_steps", "set", json!(5))]);
    v.extend([al("table_packing.min_trace_height", "double"), alv("table_packing.min_trace_height", "set", json!(8)), alv("table_packing.min_trace_height", "set", json!(64)), alv("table_packing.min_trace_height", "set", json!(3)), al("table_packing.min_trace_height", "zero")]);
    for t in ["const", "public", "alu"] {
        for op in ["inc", "dec", "double", "halve", "zero"] {
            v.push(al(&format!("rows.{t}"), op));
        }
    }
    v.push(al("alu_variant", "other"));
    v.push(al("stark_common.preprocessed_commitment", "inc"));
    v.push(al("stark_common", "none"));
    if config == "kb_d4_npo" {
        v.push(alv("stark_common", "foreign", json!("perm-input-const-0-to-7")));
    } else {
        for n in FOREIGN {
            v.push(alv("stark_common", "foreign", json!(n)));
        }
    }
    let ninst = if config == "kb_d4_npo" { 5 } else { 3 };
    for i in 0..ninst {
        v.extend([ali("stark_common.degree_bits", "inc", i), ali("stark_common.degree_bits", "dec", i), ali("stark_common.width", "inc", i), ali("stark_common.instances", "none", i)]);
    }
    v.extend([al("stark_common.lookups", "empty_all"), al("stark_common.lookups", "pop"), al("stark_common.lookups", "clear")]);
    v.extend([al("stark_common.matrix_to_instance", "swap"), al("stark_common.instances", "pop"), alv("non_primitives", "add", json!("recompose")), alv("non_primitives", "add", json!("unknown/op"))]);
    if config == "kb_d4_npo" {
        v.push(al("non_primitives", "swap"));
        for i in 0..2 {
            v.extend([ali("non_primitives", "drop", i), ali("non_primitives", "duplicate", i)]);
            for op in ["inc", "dec", "double", "zero"] {
                v.push(ali("non_primitives.rows", op, i));
            }
            v.extend([ali("non_primitives.lanes", "inc", i), ali("non_primitives.lanes", "zero", i), ali("non_primitives.op_type", "other", i), ali("non_primitives.op_type", "unknown", i), ali("non_primitives.air_variant", "other", i), ali("non_primitives.public_values", "push", i), ali("non_primitives.public_values", "inc", i), ali("table_packing.npo_lanes", "set", i)]);
        }
    }
    v
}

pub fn traces_of(config: &str) -> Vec<&'static str> {
    let mut t = vec!["honest", "invalid_alu_cell", "invalid_const", "invalid_public_cell", "invalid_public_cell_unchecked_bus"];
    if config == "kb_d4_npo" {
        t.push("invalid_npo");
    }
    t
}

pub fn cmd_gen(args: &[String]) -> i32 {
    let outp = arg(args, "--out").expect("--out");
    let seed: u64 = arg(args, "--seed").and_then(|s| s.parse().ok()).unwrap_or(7);
    let pairs: usize = arg(args, "--pairs").and_then(|s| s.parse().ok()).unwrap_or(120);
    let mut rng = seeded(seed, 0xC16);
    let mut w = std::io::BufWriter::new(std::fs::File::create(&outp).expect("create out"));
    let mut n = 0u64;
    let mut emit = |c: Case| {
        writeln!(w, "{}", serde_json::to_string(&c).unwrap()).unwrap();
        n += 1;
    };
    for config in CONFIGS {
        let s = singles(config);
        let mk = |trace: &str, alter: Vec<Alter>, serde: bool| Case { spec: Some("Metadata".into()), config: config.into(), trace: trace.into(), alter, serde, cell: None, target: None };
        for trace in traces_of(config) {
            for serde in [false, true] {
                for rep in 0..(if trace == "honest" { 1 } else { 3 }) {
                    let mut c = mk(trace, vec![], serde);
                    if trace == "invalid_npo" {
                        c.target = Some(if rep % 2 == 0 { "recompose" } else { "poseidon2" }.into());
                    }
                    emit(c);
                }
                for a in &s {
                    let mut c = mk(trace, vec![a.clone()], serde);
                    if trace == "invalid_npo" {
                        c.target = Some(if rng.random::<bool>() { "recompose" } else { "poseidon2" }.into());
                    }
                    emit(c);
                }
            }
            // targeted pairs: lanes with row counts, degree with W, heights with rows
            let mut tp: Vec<(Alter, Alter)> = vec![
                (alv("table_packing.alu_lanes", "set", json!(2)), al("rows.alu", "double")),
                (al("table_packing.alu_lanes", "double"), al("rows.alu", "double")),
                (al("table_packing.alu_lanes", "double"), al("rows.alu", "halve")),
                (al("table_packing.public_lanes", "double"), al("rows.public", "double")),
                (al("table_packing.public_lanes", "double"), al("rows.public", "halve")),
                (al("table_packing.horner_packed_steps", "inc"), al("rows.alu", "dec")),
                (al("table_packing.horner_packed_steps", "inc"), al("rows.alu", "inc")),
                (al("table_packing.min_trace_height", "double"), al("rows.const", "double")),
                (alv("ext_degree", "set", json!(1)), al("w_binomial", "none")),
                (alv("ext_degree", "set", json!(5)), al("alu_quintic_trinomial", "toggle")),
                (alv("ext_degree", "set", json!(5)), al("w_binomial", "none")),
                (alv("ext_degree", "set", json!(4)), alv("w_binomial", "set", json!(3))),
                (alv("ext_degree", "set", json!(4)), alv("w_binomial", "set", json!(11))),
                (al("w_binomial", "none"), al("alu_quintic_trinomial", "toggle")),
                (al("stark_common.preprocessed_commitment", "inc"), al("rows.alu", "inc")),
                (alv("stark_common", "foreign", json!(if config == "kb_d4_npo" { "perm-input-const-0-to-7" } else { "const-value-3-to-4" })), al("rows.const", "inc")),
            ];
            if config == "kb_d4_npo" {
                tp.extend([
                    (al("non_primitives", "swap"), al("stark_common.matrix_to_instance", "swap")),
                    (al("non_primitives", "swap"), ali("non_primitives.op_type", "other", 0)),
                    (ali("non_primitives", "drop", 1), al("stark_common.instances", "pop")),
                    (ali("non_primitives", "drop", 0), ali("stark_common.instances", "none", 3)),
                    (ali("non_primitives.rows", "double", 0), ali("stark_common.degree_bits", "inc", 3)),
                    (ali("non_primitives.lanes", "inc", 1), ali("table_packing.npo_lanes", "set", 1)),
                ]);
            }
            for (a, b) in tp {
                for serde in [false, true] {
                    emit(mk(trace, vec![a.clone(), b.clone()], serde));
                }
            }
            // random pairs of single alterations of different fields
            for _ in 0..pairs {
                let (a, b) = (&s[rng.random_range(0..s.len())], &s[rng.random_range(0..s.len())]);
                if a.field == b.field {
                    continue;
                }
                let mut c = mk(trace, vec![a.clone(), b.clone()], rng.random_range(0..3u32) == 0);
                if trace == "invalid_npo" {
                    c.target = Some(if rng.random::<bool>() { "recompose" } else { "poseidon2" }.into());
                }
                emit(c);
            }
        }
        // a proof produced wholly for a different circuit: is the verifier bound to ITS circuit?
        let names: Vec<&str> = if config == "kb_d4_npo" { vec!["perm-input-const-0-to-7"] } else { FOREIGN.to_vec() };
        for nme in names {
            emit(mk(&format!("foreign_circuit:{nme}"), vec![], false));
            emit(mk(&format!("foreign_circuit:{nme}"), vec![], true));
        }
    }
    drop(emit);
    w.flush().unwrap();
    eprintln!("metadata-gen: {n} cases -> {outp}");
    0
}

/// Debug: compare the verifying data of the honest circuit and of its variants.
pub fn cmd_debug(_args: &[String]) -> i32 {
    fn show<SC: StarkGenericConfig + 'static, EF>(name: &str, e: &Env<SC, EF>)
    where
        Val<SC>: std::fmt::Debug + PartialEq,
    {
        let c0 = serde_json::to_string(&e.cpd.prover_data.common.preprocessed.as_ref().unwrap().commitment).unwrap();
        println!("{name}: honest commitment {}", &c0[..c0.len().min(90)]);
        for (n, fc, _) in &e.foreign {
            let c = serde_json::to_string(&fc.prover_data.common.preprocessed.as_ref().unwrap().commitment).unwrap();
            println!("  variant {n}: commitment equal = {}", c == c0);
            println!("    {c0}\n    {c}");
            let g0 = e.cpd.prover_data.common.preprocessed.as_ref().unwrap();
            let g1 = fc.prover_data.common.preprocessed.as_ref().unwrap();
            println!("    instances {:?} / {:?}", g0.instances.iter().map(|m| m.as_ref().map(|m| (m.matrix_index, m.width, m.degree_bits))).collect::<Vec<_>>(), g1.instances.iter().map(|m| m.as_ref().map(|m| (m.matrix_index, m.width, m.degree_bits))).collect::<Vec<_>>());
            for (i, (a, b)) in e.cpd.primitive_columns.iter().zip(&fc.primitive_columns).enumerate() {
                println!("    primitive prep {i}: equal = {} (len {} / {})", a == b, a.len(), b.len());
                if a != b { println!("      {a:?}\n      {b:?}"); }
            }
            for (k, a) in &e.cpd.non_primitive_columns {
                let b = fc.non_primitive_columns.get(k);
                println!("    npo prep {:?}: equal = {} (len {})", k.as_str(), b == Some(a), a.len());
                if let Some(b) = b {
                    let diff: Vec<usize> = (0..a.len().min(b.len())).filter(|i| a[*i] != b[*i]).collect();
                    println!("      differing cells: {diff:?}");
                    if !diff.is_empty() { println!("      {a:?}\n      {b:?}"); }
                }
            }
        }
    }
    show("bb_d1_alu", &env_bb1(1, 1).unwrap());
    show("kb_d4_npo", &env_kb4().unwrap());
    0
}

/// Debug: with the repository's MMCS parameters (binary compression, cap height 3) a matrix whose height is below
/// the cap layer is not bound by the commitment: `verify_batch` accepts ANY opened row for it.
pub fn cmd_debug_cap(_args: &[String]) -> i32 {
    use p3_baby_bear::default_babybear_poseidon2_16;
    use p3_commit::{BatchOpeningRef, Mmcs};
    use p3_matrix::dense::RowMajorMatrix;
    use p3_matrix::{Dimensions, Matrix};
    use p3_merkle_tree::MerkleTreeMmcs;
    use p3_symmetric::{PaddingFreeSponge, TruncatedPermutation};
    type Perm = p3_baby_bear::Poseidon2BabyBear<16>;
    type H = PaddingFreeSponge<Perm, 16, 8, 8>;
    type C = TruncatedPermutation<Perm, 2, 8, 16>;
    type M = MerkleTreeMmcs<<BB as Field>::Packing, <BB as Field>::Packing, H, C, 2, 8>;
    let perm = default_babybear_poseidon2_16();
    for cap in 0..=4usize {
        let mmcs = M::new(H::new(perm.clone()), C::new(perm.clone()), cap);
        for small in [8usize, 4, 2, 1] {
            let big = RowMajorMatrix::new((0..32u64).map(BB::from_u64).collect(), 2); // 16 rows
            let m1 = RowMajorMatrix::new((100..100 + 3 * small as u64).map(BB::from_u64).collect(), 3);
            let m2 = RowMajorMatrix::new((500..500 + 3 * small as u64).map(BB::from_u64).collect(), 3);
            let (c1, d1) = mmcs.commit(vec![big.clone(), m1.clone()]);
            let (c2, _) = mmcs.commit(vec![big.clone(), m2]);
            let dims = vec![Dimensions { width: 2, height: 16 }, Dimensions { width: 3, height: small }];
            let op = mmcs.open_batch(5, &d1);
            let mut vals = op.opened_values.clone();
            let honest = mmcs.verify_batch(&c1, &dims, 5, BatchOpeningRef::new(&vals, &op.opening_proof)).is_ok();
            vals[1][0] += BB::ONE;
            let forged = mmcs.verify_batch(&c1, &dims, 5, BatchOpeningRef::new(&vals, &op.opening_proof)).is_ok();
            println!("cap_height {cap}, matrices of heights (16, {small}): commitments of two different small matrices equal = {}, honest opening ok = {honest}, opening with a changed cell of the small matrix accepted = {forged}", c1 == c2);
            let _ = big.height();
        }
    }
    0
}
