//! Binding of `spec/AluSchedule.tla` to the real ALU table (`circuit-prover/src/air/alu_air.rs`).
//!
//! One NDJSON case = one op list (Horner / other, alpha class per Horner step, which alpha classes are private inputs
//! created by their first Horner use), a lane count, a packing factor and the schedule the specification computes.
//! The driver synthesises the 13-column preprocessed rows of that op list, builds the REAL `AluAir` (its constructor runs
//! `compute_schedule`), reads the real scheduled preprocessed matrix back (`BaseAir::preprocessed_trace`) and decodes the
//! schedule from it (layout as documented at the top of `alu_air.rs`; the column structs are crate-private).  Judged on
//! the decoded (real) schedule, independently of the model:
//!   * every op exactly once, Horner entries on lane 0, a chain's entries in consecutive rows behind a lane-0 separator
//!   * an honest trace (chain accumulators: 0 at a chain start, else the previous step's out) written by the real
//!     `trace_to_matrix` satisfies the real AIR (`check_air_satisfies`) - the generator's accumulator is the AIR's
//!   * the scheduled rows put the same multiplicity on every witness index as the unscheduled op list does (outs of
//!     the inner steps of a packed row excepted: they are not materialised)
//! and the decoded schedule is compared with the model's (`model_drift`, not a violation by itself).
use std::collections::BTreeMap;
use std::io::{BufRead, BufReader, Write};
use std::panic::{AssertUnwindSafe, catch_unwind};

use p3_air::BaseAir;
use p3_baby_bear::BabyBear;
use p3_circuit::tables::AluTrace;
use p3_circuit::{AluOpKind, WitnessId};
use p3_circuit_prover::air::AluAir;
use p3_field::extension::BinomialExtensionField;
use p3_field::{PrimeCharacteristicRing, PrimeField64};
use p3_matrix::Matrix;
use p3_test_utils::air_satisfaction::check_air_satisfies;
use rand::rngs::StdRng;
use rand::RngExt;
use serde::{Deserialize, Serialize};
use serde_json::{Value, json};

use crate::pipeline::seeded;

type F = BabyBear;
type EF = BinomialExtensionField<F, 4>;

#[derive(Clone, Debug, Serialize, Deserialize, PartialEq)]
pub struct Entry {
    pub t: String,
    pub i: i64,
    pub k: i64,
}
#[derive(Clone, Debug, Serialize, Deserialize)]
pub struct OpRec {
    pub h: bool,
    pub b: u32,
}
#[derive(Clone, Debug, Serialize, Deserialize)]
pub struct Case {
    pub lanes: usize,
    pub k: usize,
    pub ops: Vec<OpRec>,
    pub privb: Vec<bool>,
    pub scheduled: bool,
    pub sched: Vec<Entry>,
    pub alpha_balanced: bool,
}

const PLW: usize = 13;
fn fi(x: F) -> i64 {
    let v = x.as_canonical_u64() as i64;
    let p = F::ORDER_U64 as i64;
    if v > p / 2 { v - p } else { v }
}
fn a_idx(j: usize) -> u32 {
    4 * j as u32 + 1
}
fn b_idx(ops: &[OpRec], j: usize) -> u32 {
    if ops[j].h { 100_000 + ops[j].b } else { 4 * j as u32 + 2 }
}
fn c_idx(j: usize) -> u32 {
    4 * j as u32 + 3
}
fn o_idx(j: usize) -> u32 {
    4 * j as u32 + 4
}

/// multiplicity of the alpha slot at step j (what `get_airs_and_degrees_with_prep` derives from `b_is_creator` / `ext_reads`)
fn mult_b(case: &Case, j: usize) -> i64 {
    if !case.ops[j].h {
        return -1;
    }
    let x = case.ops[j].b;
    let users: Vec<usize> = (0..case.ops.len()).filter(|&t| case.ops[t].h && case.ops[t].b == x).collect();
    if case.privb.get(x as usize).copied().unwrap_or(false) && users[0] == j { users.len() as i64 - 1 } else { -1 }
}

fn preprocessed(case: &Case) -> Vec<F> {
    let mut p = Vec::with_capacity(case.ops.len() * PLW);
    let sg = |v: i64| if v >= 0 { F::from_u64(v as u64) } else { -F::from_u64((-v) as u64) };
    for (j, o) in case.ops.iter().enumerate() {
        // non-Horner ops are MulAdd rows (all four operands live)
        p.extend([
            F::NEG_ONE,
            F::ZERO,
            F::ZERO,
            F::from_bool(!o.h),
            F::from_bool(o.h),
            F::from_u32(a_idx(j)),
            F::from_u32(b_idx(&case.ops, j)),
            F::from_u32(c_idx(j)),
            F::from_u32(o_idx(j)),
            sg(mult_b(case, j)),
            F::ONE,
            F::ONE,
            F::ONE,
        ]);
    }
    p
}

/// Decode the schedule from the real scheduled preprocessed matrix.
fn decode(case: &Case, m: &[F], width: usize) -> Result<Vec<Entry>, String> {
    let lanes = case.lanes;
    let kmax = case.k;
    if width != lanes * PLW + 7 * (kmax - 1) {
        return Err(format!("layout-unknown: preprocessed width {width}, documented layout gives {}", lanes * PLW + 7 * (kmax - 1)));
    }
    let rows = m.len() / width;
    let mut out = Vec::new();
    for r in 0..rows {
        let row = &m[r * width..(r + 1) * width];
        let extra = &row[lanes * PLW..];
        let selk: Vec<usize> = (2..=kmax).filter(|k| extra[k - 2] == F::ONE).collect();
        for l in 0..lanes {
            let cell = &row[l * PLW..(l + 1) * PLW];
            if cell.iter().all(|x| *x == F::ZERO) {
                out.push(Entry { t: "sep".into(), i: -1, k: 0 });
                continue;
            }
            let a = fi(cell[5]);
            if a < 1 || (a - 1) % 4 != 0 {
                return Err(format!("layout-unknown: a_idx {a} at row {r} lane {l}"));
            }
            let j = (a - 1) / 4;
            if l == 0 && !selk.is_empty() {
                if selk.len() != 1 {
                    return Err(format!("two arity selectors set at row {r}"));
                }
                out.push(Entry { t: "pk".into(), i: j, k: selk[0] as i64 });
            } else {
                out.push(Entry { t: "op".into(), i: j, k: 1 });
            }
        }
    }
    // trailing all-separator rows are padding
    while out.len() >= lanes && out[out.len() - lanes..].iter().all(|e| e.t == "sep") {
        out.truncate(out.len() - lanes);
    }
    Ok(out)
}

/// WitnessChecks multiplicity per witness index of a preprocessed matrix (scheduled layout, documented column order).
fn bus_of_matrix(case: &Case, m: &[F], width: usize) -> BTreeMap<i64, i64> {
    let lanes = case.lanes;
    let kmax = case.k;
    let mut bus: BTreeMap<i64, i64> = BTreeMap::new();
    let mut add = |idx: F, mult: F| {
        if mult != F::ZERO {
            *bus.entry(fi(idx)).or_default() += fi(mult);
        }
    };
    for r in 0..m.len() / width {
        let row = &m[r * width..(r + 1) * width];
        for l in 0..lanes {
            let c = &row[l * PLW..(l + 1) * PLW];
            add(c[5], c[0] * c[11]);
            add(c[6], c[9]);
            add(c[7], c[0] * c[12]);
            add(c[8], c[10]);
        }
        let extra = &row[lanes * PLW..];
        for t in 1..kmax {
            let s = &extra[(kmax - 1) + 6 * (t - 1)..(kmax - 1) + 6 * t];
            add(s[0], s[4]);
            add(s[1], s[5]);
        }
    }
    bus.retain(|_, v| *v != 0);
    bus
}

fn guard<T>(f: impl FnOnce() -> T) -> Result<T, String> {
    catch_unwind(AssertUnwindSafe(f)).map_err(|e| e.downcast_ref::<String>().cloned().or_else(|| e.downcast_ref::<&str>().map(|s| s.to_string())).unwrap_or_else(|| "panic".into()))
}

pub struct Outcome {
    pub class: &'static str,
    pub findings: Vec<(String, String, Value)>, // (property, signature, detail)
    pub drift: Option<Value>,
    pub error: Option<String>,
}

pub fn run_case(case: &Case, rng: &mut StdRng) -> Outcome {
    let mut o = Outcome { class: "ok", findings: Vec::new(), drift: None, error: None };
    let n = case.ops.len();
    let cj = serde_json::to_value(case).unwrap();
    let shape = format!("lanes{}+k{}{}", case.lanes, case.k, if case.privb.iter().any(|x| *x) { "+private-alpha" } else { "" });
    let prep = preprocessed(case);
    let air = match guard(|| AluAir::<F, 1>::new_with_preprocessed(n, case.lanes, prep.clone(), case.k)) {
        Ok(a) => a,
        Err(e) => {
            o.findings.push(("C10".into(), format!("air-panics@constructor+{shape}"), json!({"case": cj, "panic": e})));
            return o;
        }
    };
    let pm = match guard(|| air.preprocessed_trace()) {
        Ok(Some(m)) => m,
        Ok(None) => {
            o.error = Some("no preprocessed trace".into());
            return o;
        }
        Err(e) => {
            o.findings.push(("C10".into(), format!("air-panics@preprocessed-trace+{shape}"), json!({"case": cj, "panic": e})));
            return o;
        }
    };
    let width = pm.width();
    let real = match decode(case, &pm.values, width) {
        Ok(s) => s,
        Err(e) => {
            o.error = Some(format!("{e}: {cj}"));
            return o;
        }
    };
    // the model's schedule (unscheduled tables: op j at position j)
    let model: Vec<Entry> = if case.scheduled { case.sched.clone() } else { (0..n).map(|j| Entry { t: "op".into(), i: j as i64, k: 1 }).collect() };
    let norm = |s: &[Entry]| -> Vec<(String, i64, i64)> {
        let mut v: Vec<(String, i64, i64)> = s.iter().map(|e| (e.t.clone(), if e.t == "sep" { -1 } else { e.i }, if e.t == "sep" { 0 } else { e.k })).collect();
        while v.last().is_some_and(|e| e.0 == "sep") {
            v.pop();
        }
        v
    };
    if norm(&real) != norm(&model) {
        o.drift = Some(json!({"case": cj, "real_schedule": real}));
    }
    // --- properties of the REAL schedule
    let lanes = case.lanes;
    let mut seen = vec![0u32; n];
    let mut bad: Vec<String> = Vec::new();
    for (p, e) in real.iter().enumerate() {
        if e.t == "sep" {
            continue;
        }
        for j in e.i..e.i + e.k {
            if j < 0 || j as usize >= n {
                bad.push(format!("entry covers op {j} out of range"));
            } else {
                seen[j as usize] += 1;
            }
        }
        let j = e.i as usize;
        if j < n && case.ops[j].h {
            if p % lanes != 0 {
                bad.push(format!("horner op {j} not on lane 0"));
            }
            // predecessor on lane 0 of the previous row
            if p < lanes {
                bad.push(format!("horner op {j} on the first row"));
            } else {
                let q = &real[p - lanes];
                let chain_start = j == 0 || !case.ops[j - 1].h;
                let ok = if chain_start { q.t == "sep" } else { q.t != "sep" && (q.i + q.k - 1) as usize == j - 1 };
                if !ok {
                    bad.push(format!("horner op {j}: lane-0 entry of the previous row is {:?}", q));
                }
            }
            if e.t == "pk" && !(0..e.k as usize).all(|t| j + t < n && case.ops[j + t].h && case.ops[j + t].b == case.ops[j].b) {
                bad.push(format!("packed row at op {j} mixes alphas or kinds"));
            }
        }
    }
    if case.scheduled || !real.is_empty() {
        for (j, s) in seen.iter().enumerate() {
            if *s != 1 {
                bad.push(format!("op {j} scheduled {s} times"));
            }
        }
    }
    if !bad.is_empty() {
        o.findings.push(("C10".into(), format!("schedule-malformed@{shape}"), json!({"case": cj, "real_schedule": real, "problems": bad})));
    }
    // --- honest trace through the real generator and the real AIR
    let mut vals: Vec<[F; 4]> = Vec::with_capacity(n);
    let mut alpha: BTreeMap<u32, F> = BTreeMap::new();
    let rf = |rng: &mut StdRng| F::from_u64(rng.random::<u64>() >> 1);
    let mut acc = F::ZERO;
    for (j, op) in case.ops.iter().enumerate() {
        let (a, c) = (rf(rng), rf(rng));
        if op.h {
            if j == 0 || !case.ops[j - 1].h {
                acc = F::ZERO;
            }
            let b = *alpha.entry(op.b).or_insert_with(|| rf(rng));
            acc = acc * b + c - a;
            vals.push([a, b, c, acc]);
        } else {
            let b = rf(rng);
            vals.push([a, b, c, a * b + c]);
        }
    }
    let trace = AluTrace {
        op_kind: case.ops.iter().map(|o| if o.h { AluOpKind::HornerAcc } else { AluOpKind::MulAdd }).collect(),
        values: vals.clone(),
        indices: (0..n).map(|j| [WitnessId(a_idx(j)), WitnessId(b_idx(&case.ops, j)), WitnessId(c_idx(j)), WitnessId(o_idx(j))]).collect(),
    };
    match guard(|| air.trace_to_matrix::<F>(&trace, 1)) {
        Err(e) => o.findings.push(("C10".into(), format!("air-panics@trace-to-matrix+{shape}"), json!({"case": cj, "panic": e}))),
        Ok(m) => match guard(|| check_air_satisfies::<F, EF, _>(&air, &m, &[]).err()) {
            Err(e) => o.findings.push(("C10".into(), format!("air-panics@eval+{shape}"), json!({"case": cj, "panic": e}))),
            Ok(Some((row, msg))) => {
                let filler = real.iter().enumerate().any(|(p, e)| e.t == "sep" && p % lanes != 0);
                o.findings.push((
                    "C10".into(),
                    format!("honest-scheduled-trace-rejected@{shape}{}", if filler { "+filler-separator" } else { "" }),
                    json!({"case": cj, "real_schedule": real, "row": row, "code": msg.chars().take(240).collect::<String>()}),
                ));
            }
            Ok(None) => {}
        },
    }
    // --- bus: scheduled rows vs op list
    let sched_bus = bus_of_matrix(case, &pm.values, width);
    let mut orig: BTreeMap<i64, i64> = BTreeMap::new();
    let inner: Vec<usize> = real.iter().filter(|e| e.t == "pk").flat_map(|e| (e.i as usize)..(e.i + e.k - 1) as usize).collect();
    for j in 0..n {
        *orig.entry(a_idx(j) as i64).or_default() += -1;
        *orig.entry(b_idx(&case.ops, j) as i64).or_default() += mult_b(case, j);
        *orig.entry(c_idx(j) as i64).or_default() += -1;
        if !inner.contains(&j) {
            *orig.entry(o_idx(j) as i64).or_default() += 1;
        }
    }
    orig.retain(|_, v| *v != 0);
    if sched_bus != orig {
        let mut diff: Vec<Value> = Vec::new();
        let keys: std::collections::BTreeSet<i64> = sched_bus.keys().chain(orig.keys()).copied().collect();
        let mut which = std::collections::BTreeSet::new();
        for k in keys {
            let (s, g) = (sched_bus.get(&k).copied().unwrap_or(0), orig.get(&k).copied().unwrap_or(0));
            if s != g {
                which.insert(if k >= 100_000 { "alpha" } else { ["out", "a", "b", "c"][(k % 4) as usize] });
                diff.push(json!({"index": k, "scheduled": s, "op_list": g}));
            }
        }
        let which: Vec<&str> = which.into_iter().collect();
        o.findings.push((
            "C09".into(),
            format!("scheduled-multiplicity-differs@{}+{shape}", which.join("-")),
            json!({"case": cj, "real_schedule": real, "diff": diff}),
        ));
        if case.alpha_balanced && which == ["alpha"] {
            o.drift = Some(json!({"case": cj, "note": "model predicts balanced alpha multiplicities"}));
        }
    } else if !case.alpha_balanced {
        o.drift = Some(json!({"case": cj, "note": "model predicts unbalanced alpha multiplicities, real matrix balances"}));
    }
    if !o.findings.is_empty() {
        o.class = "finding";
    }
    o
}

fn arg(args: &[String], name: &str) -> Option<String> {
    args.iter().position(|a| a == name).and_then(|i| args.get(i + 1).cloned())
}

/// `p3r alu-schedule --cases <ndjson> --out <json> [--seed n] [--stride n]`
pub fn cmd(args: &[String]) -> i32 {
    let Some(cases) = arg(args, "--cases") else {
        eprintln!("--cases required");
        return 2;
    };
    let outp = arg(args, "--out");
    let seed: u64 = arg(args, "--seed").and_then(|s| s.parse().ok()).unwrap_or(1);
    let stride: usize = arg(args, "--stride").and_then(|s| s.parse().ok()).unwrap_or(1);
    let lines: Vec<String> = BufReader::new(std::fs::File::open(&cases).expect("cases")).lines().map(|l| l.unwrap()).filter(|l| !l.trim().is_empty()).collect();
    let lines: Vec<&String> = lines.iter().step_by(stride.max(1)).collect();
    let nthreads = std::thread::available_parallelism().map(|n| n.get()).unwrap_or(8).min(16);
    let results: std::sync::Mutex<Vec<(usize, Outcome)>> = std::sync::Mutex::new(Vec::new());
    let errors: std::sync::Mutex<Vec<String>> = std::sync::Mutex::new(Vec::new());
    std::thread::scope(|s| {
        for t in 0..nthreads {
            let lines = &lines;
            let results = &results;
            let errors = &errors;
            s.spawn(move || {
                let mut local = Vec::new();
                for (i, l) in lines.iter().enumerate().filter(|(i, _)| i % nthreads == t) {
                    match serde_json::from_str::<Case>(l) {
                        Ok(c) => {
                            let mut rng = seeded(seed, i as u64);
                            local.push((i, run_case(&c, &mut rng)));
                        }
                        Err(e) => errors.lock().unwrap().push(format!("bad case line {i}: {e}")),
                    }
                }
                results.lock().unwrap().extend(local);
            });
        }
    });
    let mut results = results.into_inner().unwrap();
    results.sort_by_key(|r| r.0);
    let mut errors = errors.into_inner().unwrap();
    let mut groups: BTreeMap<(String, String), (u64, Value)> = BTreeMap::new();
    let mut drift: Vec<Value> = Vec::new();
    let mut ndrift = 0u64;
    let mut stats: BTreeMap<String, u64> = BTreeMap::new();
    for (_, r) in results {
        *stats.entry(r.class.to_string()).or_default() += 1;
        if let Some(e) = r.error {
            if errors.len() < 20 {
                errors.push(e);
            }
        }
        if let Some(d) = r.drift {
            ndrift += 1;
            if drift.len() < 5 {
                drift.push(d);
            }
        }
        for (p, s, d) in r.findings {
            let e = groups.entry((p, s)).or_insert((0, d));
            e.0 += 1;
        }
    }
    stats.insert("cases".into(), lines.len() as u64);
    stats.insert("model_drift".into(), ndrift);
    let findings: Vec<Value> = groups
        .into_iter()
        .map(|((p, s), (n, d))| json!({"property": p, "kind": s.split('@').next().unwrap_or(""), "signature": s, "count": n, "example": d}))
        .collect();
    let res = json!({"stats": stats, "findings": findings, "model_drift_examples": drift, "errors": errors, "samples": []});
    let text = serde_json::to_string_pretty(&res).unwrap();
    match outp {
        Some(p) => std::fs::File::create(p).unwrap().write_all(text.as_bytes()).unwrap(),
        None => println!("{text}"),
    }
    0
}

// ---------------------------------------------------------------------------------------------
// End-to-end programs for the alpha roles of the model: a Horner chain built with the real builder, whose alpha is
// (a) a public input, (b) a private input first used by the chain, (c) a private input first used by an earlier op.
// ---------------------------------------------------------------------------------------------
use p3_circuit::CircuitBuilder;
use p3_circuit_prover::TablePacking;

/// Returns Ok(()) iff the honest execution proves and verifies.
pub fn alpha_chain(alpha_kind: &str, chain: usize, lanes: usize, k: usize, extra_ops: usize, seed: u64) -> Result<(), String> {
    let mut rng = seeded(seed, chain as u64 * 1000 + lanes as u64 * 10 + k as u64);
    let mut b = CircuitBuilder::<F>::new();
    let zero = b.define_const(F::ZERO);
    let mut pubs: Vec<F> = Vec::new();
    let mut privs: Vec<F> = Vec::new();
    let rf = |rng: &mut StdRng| F::from_u64(rng.random::<u64>() >> 1);
    let av = rf(&mut rng);
    let alpha = match alpha_kind {
        "public" => {
            pubs.push(av);
            b.public_input()
        }
        _ => {
            privs.push(av);
            b.alloc_private_input("alpha")
        }
    };
    if alpha_kind == "private-used-before" {
        // an earlier multiplication creates the slot on the bus
        let x = b.public_input();
        let xv = rf(&mut rng);
        pubs.push(xv);
        let y = b.mul(x, alpha);
        let yo = b.public_input();
        pubs.push(xv * av);
        b.connect(y, yo);
    }
    let mut acc = zero;
    let mut accv = F::ZERO;
    for _ in 0..chain {
        let (pz, px) = (b.public_input(), b.public_input());
        let (pzv, pxv) = (rf(&mut rng), rf(&mut rng));
        pubs.push(pzv);
        pubs.push(pxv);
        acc = b.horner_acc_step(acc, alpha, pz, px);
        accv = accv * av + pzv - pxv;
    }
    let out = b.public_input();
    pubs.push(accv);
    b.connect(acc, out);
    for _ in 0..extra_ops {
        let (x, y, z) = (b.public_input(), b.public_input(), b.public_input());
        let (xv, yv) = (rf(&mut rng), rf(&mut rng));
        pubs.extend([xv, yv, xv * yv]);
        let m = b.mul(x, y);
        b.connect(m, z);
    }
    let circuit = b.build().map_err(|e| format!("build: {e:?}"))?;
    let out = crate::pipeline::run(&circuit, &pubs, &privs);
    let Some(traces) = out.traces else { return Err(format!("run: {:?}", out.err)) };
    crate::pipeline::prove_verify(&circuit, &traces, TablePacking::new(1, lanes).with_horner_pack_k(k))
}

/// `p3r alpha-chain`: one JSON line per program.
pub fn cmd_alpha(args: &[String]) -> i32 {
    let seed: u64 = arg(args, "--seed").and_then(|s| s.parse().ok()).unwrap_or(1);
    let thorough = args.iter().any(|a| a == "--thorough");
    let chains: &[usize] = if thorough { &[1, 2, 3, 4, 5, 7] } else { &[1, 2, 3, 5] };
    for kind in ["public", "private", "private-used-before"] {
        for &chain in chains {
            for (lanes, k) in [(1usize, 2usize), (2, 2), (1, 3), (2, 4)] {
                for extra in [0usize, 3] {
                    let r = guard(|| alpha_chain(kind, chain, lanes, k, extra, seed)).unwrap_or_else(|e| Err(format!("panic: {e}")));
                    println!("{}", json!({"program": format!("horner-chain-alpha-{kind}"), "alpha": kind, "chain": chain, "lanes": lanes, "k": k, "extra_ops": extra,
                        "packed_creator": kind == "private" && chain >= 2, "accepted": r.is_ok(), "msg": r.err().map(|e| e.chars().take(200).collect::<String>())}));
                }
            }
        }
    }
    0
}

/// `p3r one-op-lanes`: circuits with 0 / 1 / 2 ALU operations proven under 1 / 2 / 4 ALU lanes (the prover and the preparation
/// step decide separately whether the ALU table is "dummy only"); `prove_verify` also compares the verifying data the proof
/// carries with the independently compiled one.
pub fn cmd_one_op(args: &[String]) -> i32 {
    let seed: u64 = arg(args, "--seed").and_then(|s| s.parse().ok()).unwrap_or(1);
    for ops in [0usize, 1, 2, 3] {
        for lanes in [1usize, 2, 4] {
            let r = guard(|| alpha_chain("public", 0, lanes, 2, ops, seed)).unwrap_or_else(|e| Err(format!("panic: {e}")));
            println!("{}", json!({"program": "few-alu-ops", "alu_ops": ops, "lanes": lanes, "accepted": r.is_ok(), "msg": r.err().map(|e| e.chars().take(200).collect::<String>())}));
        }
    }
    0
}
